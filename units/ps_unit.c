/* Proof units over Lib/core/ps.c. */
/* loop contract of the drain loop in flush_pubsub_msgs() (anchor M_VERIF_LOOP(ps_flush)): what has left the ghost pipe has been
 * either appended to the delivery queue or released, exactly once, according to the flush mode */
#ifdef V_FLUSH_UNIT
#define M_VERIF_LOOPSPEC_ps_flush \
    __CPROVER_assigns(mm, g.read_calls, g.pipe_len, g_errno, g.newevt_calls, g.newevt_src, g.enq_calls, g.enq_arg, g.enq_q, g.unref_calls, g.unref_arg, g.unref_arg_prev, \
                      flushed->len, flushed->first, flushed->last) \
    __CPROVER_loop_invariant(g.pipe_len <= g_P0 && flushed == g.qnew_ret && flushed != NULL && g.cb_calls == g_cb0) \
    __CPROVER_loop_invariant((!stopping_mod && g_mod->state == M_MOD_RUNNING) ? (g.enq_calls == g_e0 + (g_P0 - g.pipe_len) && g.unref_calls == g_u0 && flushed->len == g_P0 - g.pipe_len) \
                                                                               : (g.unref_calls == g_u0 + (g_P0 - g.pipe_len) && g.enq_calls == g_e0 && flushed->len == 0)) \
    __CPROVER_decreases(g.pipe_len)
#endif
#ifdef V_TELLSUBS_UNIT
#define M_VERIF_LOOPSPEC_ps_tellsubs \
    __CPROVER_assigns(m_itr, m_idx, g_mit->idx, g.mit_freed, g.itr_get_calls, g.modis_calls, g.modis_mask, g.elig_count, g.fetchsub_calls, g.hits, g.tellif_calls) \
    __CPROVER_loop_invariant(m_itr == NULL ? (g_mit->idx == g_tab->len && g.mit_freed == g_fr0 + (g_tab->len > 0 ? 1 : 0)) \
                                           : (m_itr == (m_map_itr_t *)g_mit && g_mit->m == (m_map_t *)g_tab && g_mit->idx < g_tab->len && g.mit_freed == g_fr0)) \
    __CPROVER_loop_invariant(g.modis_calls == g_m0 + g_mit->idx && (g_mit->idx == 0 || g.modis_mask == (M_MOD_RUNNING | M_MOD_PAUSED))) \
    __CPROVER_loop_invariant(g.fetchsub_calls - g_f0 == g.elig_count - g_el0 && g.tellif_calls - g_t0 == g.hits - g_h0) \
    __CPROVER_decreases(g_tab->len - g_mit->idx)
#endif
#ifdef V_FETCHSUB_UNIT
#define M_VERIF_LOOPSPEC_ps_fetch \
    __CPROVER_assigns(m_itr, m_idx, sub, g_mit->idx, g.mit_freed, g.itr_get_calls, g.regexec_calls) \
    __CPROVER_loop_invariant(m_itr == NULL ? (g_mit->idx == g_tab->len && g.mit_freed == g_fr0 + (g_tab->len > 0 ? 1 : 0)) \
                                           : (m_itr == (m_map_itr_t *)g_mit && g_mit->m == (m_map_t *)g_tab && g_mit->idx < g_tab->len && g.mit_freed == g_fr0)) \
    __CPROVER_loop_invariant(g.regexec_calls == g_r0 + g_mit->idx && g_mit->idx <= g_match_at && g_free_calls == g_fc0 && !g_exact) \
    __CPROVER_decreases(g_tab->len - g_mit->idx)
#endif
#include "vmodel.h"
#include "core/ps.c"            /* the real translation unit, unmodified */
static m_queue_t *g_evq;
#include "abs.contracts.h"
#include "cb.contracts.h"
#if defined(V_TELLSUBS_UNIT) || defined(V_FETCHSUB_UNIT) || defined(V_SUBSCRIBE_UNIT) || defined(V_ROUTE_UNIT) || defined(V_UNSUB_UNIT)
#include "subs.contracts.h"
#else
#include "ps.contracts.h"
#endif

#define H_INPUTS(X) V_MOD_INPUTS(X) X(uint64_t, evq_len) X(uint8_t, has_topic) X(uint8_t, has_key) X(uint8_t, alloc_fails) X(uint8_t, pipe_full) X(uint8_t, autofree) X(uint64_t, pipe_len) X(uint8_t, stopping) X(uint8_t, has_sub) X(uint32_t, sflags_old) X(uint32_t, sflags_new)
V_DEFINE_INPUTS(H_INPUTS)
#include "vbuild.h"

void h_call_pubsub_cb(void) {
    build();
    V_ASSUME(vin_evq_len < ((uint64_t)1 << 59) && vin_recv_msgs < ((uint64_t)1 << 62));
    g_evq = v_mkqueue(vin_evq_len);
    /* address-taken candidates for the indirect call */
    m_evt_cb keep[2] = { v_on_evt, v_become_evt }; (void)keep;
    call_pubsub_cb(g_mod, g_evq);
    V_COVER("cb-original", vin_evq_len > 0 && vin_recvs_len == 0 && g.evt_cb_which == 0);
    V_COVER("cb-become", vin_evq_len > 0 && vin_recvs_len > 0 && g.evt_cb_which == 1);
    V_COVER("cb-empty", vin_evq_len == 0);
    V_COVER("cb-zombie-after", vin_evq_len > 0 && g_mod->state == M_MOD_ZOMBIE);
    V_CANARY();
}

void h_tell_if(void) {
    build();
    V_ASSUME(vin_pipe_len < ((uint64_t)1 << 60));
    static ps_priv_t callers_msg;          /* lives on the sender's stack in the real code: NOT a reference-counted block */
    static m_mod_t sender; static ev_src_t sub; static int payload;
    g_msg = &callers_msg;
    g_msg->msg.system = false; g_msg->msg.sender = &sender; g_msg->msg.topic = vin_has_topic ? "t" : NULL; g_msg->msg.data = &payload;
    g_msg->flags = vin_autofree ? M_PS_AUTOFREE : 0; g_msg->sub = NULL;
    g_alloc_fails = vin_alloc_fails & 1; g_pipe_full = vin_pipe_full & 1; g.pipe_len = vin_pipe_len;
    g_mod->pubsub_fd[0] = 7; g_mod->pubsub_fd[1] = 8;
    int r = tell_if(g_msg, vin_has_key ? (const char *)&sub : NULL, g_mod);
    if (g.memnew_calls == 1 && !g_alloc_fails) {
        ps_priv_t *copy = g.memnew_ret;
        V_CHECK("C02.copy-carries-sender-topic-payload-flags", copy->msg.sender == &sender && copy->msg.topic == g_msg->msg.topic && copy->msg.data == (void *)&payload
                                                                && copy->flags == g_msg->flags && copy->msg.system == false);
        V_CHECK("C02.copy-records-the-matched-subscription", copy->sub == (vin_has_topic ? &sub : NULL));
    }
    V_COVER("tell-direct-running", !vin_has_topic && r == 0 && g.pipe_len == vin_pipe_len + 1); V_COVER("tell-publish-matched", vin_has_topic && vin_has_key && g.write_calls == 1);
    V_COVER("tell-publish-unmatched", vin_has_topic && !vin_has_key); V_COVER("tell-pipe-full", g.unref_calls == 1); V_COVER("tell-not-eligible-state", vin_state == M_MOD_IDLE);
    V_CANARY();
}

#ifdef V_FLUSH_UNIT
void h_flush(void) {
    build();
    V_ASSUME(vin_pipe_len < ((uint64_t)1 << 58));
    static ev_src_t sub;
    g_pmsg = malloc(sizeof *g_pmsg); __CPROVER_assume(g_pmsg != NULL);
    g_pmsg->sub = vin_has_sub ? &sub : NULL; g_pmsg->msg.topic = vin_has_sub ? "t" : NULL; g_pmsg->flags = 0;
    g.pipe_len = vin_pipe_len; g_mod->pubsub_fd[0] = 7; g_mod->pubsub_fd[1] = 8;
    g_P0 = g.pipe_len; g_e0 = g.enq_calls; g_u0 = g.unref_calls; g_cb0 = g.cb_calls;
    int r = flush_pubsub_msgs(NULL, (vin_stopping & 1) ? NULL : "k", g_mod);
    V_COVER("flush-deliver-many", !(vin_stopping & 1) && vin_state == M_MOD_RUNNING && vin_pipe_len == 1000 && r == 0); V_COVER("flush-discard-stopping", (vin_stopping & 1) && vin_pipe_len == 3);
    V_COVER("flush-discard-paused", !(vin_stopping & 1) && vin_state == M_MOD_PAUSED && vin_pipe_len > 0); V_COVER("flush-direct-tell", !(vin_stopping & 1) && vin_state == M_MOD_RUNNING && !vin_has_sub && vin_pipe_len > 0);
    V_CANARY();
}
#endif

#if defined(V_TELLSUBS_UNIT) || defined(V_FETCHSUB_UNIT) || defined(V_SUBSCRIBE_UNIT) || defined(V_ROUTE_UNIT) || defined(V_UNSUB_UNIT)
static char g_topicbuf[2] = "t";
static void build_subs(void) {
    build();
    V_ASSUME(vin_pipe_len < ((uint64_t)1 << 58));
    g_tab = malloc(sizeof *g_tab); g_mit = malloc(sizeof *g_mit); g_psrc = malloc(sizeof *g_psrc); g_msg = malloc(sizeof *g_msg); __CPROVER_assume(g_tab && g_mit && g_psrc && g_msg);
    g_tab->len = vin_pipe_len; g_tab->internal = 0; g_mit->m = NULL; g_mit->idx = 0; g_topic = g_topicbuf; g_msg->msg.topic = g_topic; g_msg->sub = NULL; g_msg->flags = 0;
    g_m0 = g.modis_calls; g_el0 = g.elig_count; g_f0 = g.fetchsub_calls; g_h0 = g.hits; g_t0 = g.tellif_calls; g_fr0 = g.mit_freed; g_r0 = g.regexec_calls; g_fc0 = g_free_calls;
}
#endif
#ifdef V_TELLSUBS_UNIT
void h_tell_subscribers(void) {
    build_subs();
    g_ctx->modules = (m_map_t *)g_tab;
    tell_subscribers(g_msg, g_ctx);
    V_COVER("publish-three-modules-two-told", vin_pipe_len == 3 && g.tellif_calls == 2 && g.elig_count == 3); V_COVER("publish-no-modules", vin_pipe_len == 0);
    V_COVER("publish-nobody-subscribed", vin_pipe_len == 2 && g.tellif_calls == 0 && g.fetchsub_calls == 2); V_COVER("publish-many", vin_pipe_len == 100000 && g.tellif_calls == 7);
    V_CANARY();
}
#endif
#ifdef V_FETCHSUB_UNIT
void h_fetch_sub(void) {
    build_subs();
    g_mod->subscriptions = (m_map_t *)g_tab; g_exact = vin_has_sub & 1; g_match_at = vin_evq_len;
    /* the topic looked up is a user topic or a system topic (notifications reach pattern subscribers through the same scan: C19) */
    static char systopic[] = M_PS_MOD_STARTED;
    if (vin_has_key & 1) g_topic = systopic;
    ev_src_t *r = fetch_sub(g_mod, g_topic);
    V_COVER("sub-system-topic-by-pattern", r != NULL && (vin_has_key & 1) && !(vin_has_sub & 1));
    V_COVER("sub-exact", r != NULL && (vin_has_sub & 1)); V_COVER("sub-pattern-third-of-five", r != NULL && !(vin_has_sub & 1) && vin_pipe_len == 5 && vin_evq_len == 2);
    V_COVER("sub-none-of-four", r == NULL && vin_pipe_len == 4); V_COVER("sub-empty-table", r == NULL && vin_pipe_len == 0); V_COVER("sub-pattern-last", r != NULL && !(vin_has_sub & 1) && vin_pipe_len == 3 && vin_evq_len == 2);
    V_CANARY();
}
#endif

#ifdef V_SUBSCRIBE_UNIT
void h_subscribe(void) {
    build_subs();
    static char oldtopic[2] = "t";
    g_mctx = g_ctx; g_regcomp_ret = vin_has_key ? 2 : 0;
    g_entry = vin_has_sub & 1;
    g_oldsub = malloc(sizeof *g_oldsub); __CPROVER_assume(g_oldsub != NULL); g_oldsub->flags = (m_src_flags)vin_sflags_old; g_oldsub->ps_src.topic = (vin_sflags_old & M_SRC_DUP) ? oldtopic : g_topicbuf; g_oldsub->userptr = NULL;
    g_mod->subscriptions = (vin_has_topic || g_entry) ? (m_map_t *)g_tab : NULL;
    g.map_key = g_entry ? (const void *)g_oldsub->ps_src.topic : NULL; g.freed_topic = NULL;
    int r = m_mod_ps_subscribe(g_mod, vin_alloc_fails ? NULL : g_topic, (m_src_flags)vin_sflags_new, &g_topicbuf[1]);
    V_COVER("sub-first", r == 0 && !g_mod->subscriptions == 0 && !(vin_has_sub & 1) && g.mapnew_calls == 1); V_COVER("sub-same-flags-in-place", r == 0 && (vin_has_sub & 1) && g.mapput_calls == 0);
    V_COVER("sub-other-flags-replaces-dup", r == 0 && (vin_has_sub & 1) && g.mapput_calls == 1 && (vin_sflags_old & M_SRC_DUP)); V_COVER("sub-bad-pattern", r == 2); V_COVER("sub-denied", r == -EPERM);
    V_CANARY();
}
#endif

#ifdef V_ROUTE_UNIT
#ifdef V_PUBLISH_UNIT
void h_publish(void) {
    build_subs();
    static int payload;
    g_mctx = g_ctx; g_ctx->modules = (m_map_t *)g_tab; g_exact = vin_has_key & 1; V_ASSUME(vin_sent_msgs < UINT64_MAX);
    int r = m_mod_ps_publish(g_mod, vin_has_topic ? g_topic : NULL, vin_alloc_fails ? NULL : &payload, 0);
    V_COVER("publish-topic", r == 0 && vin_has_topic && g.tellsubs_calls == 1); V_COVER("publish-broadcast", r == 0 && !vin_has_topic && g.iterate_calls == 1); V_COVER("publish-reserved", r == -EPERM && (vin_has_key & 1) && vin_has_topic && !(vin_mflags & M_MOD_DENY_PUB));
    V_COVER("publish-no-message", r == -EINVAL);
    V_CANARY();
}
#endif
#ifdef V_TELL_UNIT
void h_tell(void) {
    build_subs();
    static int payload; static m_mod_t rcp; static m_ctx_t other;
    g_mctx = g_ctx; rcp.ctx = vin_has_key ? &other : g_ctx; rcp.state = M_MOD_RUNNING; V_ASSUME(vin_sent_msgs < UINT64_MAX);
    int r = m_mod_ps_tell(g_mod, vin_has_topic ? NULL : &rcp, vin_alloc_fails ? NULL : &payload, 0);
    V_COVER("tell-ok", r == 0 && g.tellif_calls == 1); V_COVER("tell-foreign-context", r == -EINVAL && vin_has_key && !vin_has_topic && !(vin_state & M_MOD_ZOMBIE) && vin_mctx_kind == 0); V_COVER("tell-no-recipient", r == -EINVAL && vin_has_topic);
    V_CANARY();
}
#endif
void h_tell_system(void) {
    build_subs();
    static m_mod_t rcp; rcp.ctx = g_ctx; rcp.state = M_MOD_RUNNING;
    g_ctx->modules = (m_map_t *)g_tab; V_ASSUME(vin_sent_msgs < UINT64_MAX);
    int r = tell_system_pubsub_msg(vin_has_key ? &rcp : NULL, g_ctx, vin_has_sub ? g_mod : NULL, g_topic);
    V_COVER("system-broadcast-nobody-running", r == 0 && !vin_has_key && vin_running == 0 && g.tellsubs_calls == 1); V_COVER("system-direct", r == 0 && vin_has_key && g.tellif_calls == 1);
    V_COVER("system-without-sender", r == 0 && !vin_has_sub);
    V_CANARY();
}
#endif

#ifdef V_UNSUB_UNIT
void h_unsubscribe(void) {
    build_subs();
    V_ASSUME(vin_pipe_len > 0 && vin_pipe_len < ((uint64_t)1 << 58));
    g_mctx = vin_mctx_kind == 0 ? g_ctx : NULL; g_mod->subscriptions = (m_map_t *)g_tab; g_maprm_ret = vin_has_key ? -ENOENT : 0;
    int r = m_mod_ps_unsubscribe(g_mod, vin_alloc_fails ? NULL : g_topic);
    V_COVER("unsub-last", r == 0 && vin_pipe_len == 1 && g_mod->subscriptions == NULL); V_COVER("unsub-one-of-many", r == 0 && vin_pipe_len == 9 && g_mod->subscriptions != NULL); V_COVER("unsub-absent", r == -ENOENT);
    V_COVER("unsub-denied", r == -EPERM);
    V_CANARY();
}
#endif
