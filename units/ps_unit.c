/* Proof units over Lib/core/ps.c. */
#include "vmodel.h"
#include "core/ps.c"            /* the real translation unit, unmodified */
static m_queue_t *g_evq;
#include "abs.contracts.h"
#include "cb.contracts.h"
#include "ps.contracts.h"

#define H_INPUTS(X) V_MOD_INPUTS(X) X(uint64_t, evq_len)
V_DEFINE_INPUTS(H_INPUTS)
#include "vbuild.h"

void h_call_pubsub_cb(void) {
    build();
    V_ASSUME(vin_evq_len < ((uint64_t)1 << 59) && vin_recv_msgs < ((uint64_t)1 << 62));
    g_evq = v_mkqueue(vin_evq_len);
    /* address-taken candidates for the indirect call */
    m_evt_cb keep[2] = { v_on_evt, v_become_evt }; (void)keep;
    call_pubsub_cb(g_mod, g_evq);
    V_COVER("cb-original", vin_evq_len > 0 && vin_recvs_len == 0 && g.evt_cb_which == 0);
    V_COVER("cb-become", vin_evq_len > 0 && vin_recvs_len > 0 && g.evt_cb_which == 1);
    V_COVER("cb-empty", vin_evq_len == 0);
    V_COVER("cb-zombie-after", vin_evq_len > 0 && g_mod->state == M_MOD_ZOMBIE);
    V_CANARY();
}
