/* Proof units: Lib/structs/list.c -- property C12 (and C04 safety).  l.* window units (unbounded), lb.* bounded. */
#include "vbase.h"

size_t g_dtor_calls;
void  *g_dtor_arg;
void   v_elem_dtor(void *p) { g_dtor_calls++; g_dtor_arg = p; }

#include "structs/list.c"       /* the real translation unit, unmodified */

m_list_t *g_l; list_node *g_first, *g_P, *g_C, *g_Cd; list_node **g_slot; m_list_itr_t *g_itr, *g_itr_in;
list_node g_dummy_node;

#ifdef V_CBMC
#include "list.contracts.h"
#else
#include "list.native.h"
#endif

#define H_INPUTS(X) X(uint64_t, len) X(uint8_t, has_dtor) X(uint8_t, null_arg) X(uint64_t, oom) X(uint8_t, pos) \
                    X(uint8_t, c_last) X(int64_t, diff) X(uint64_t, up0) X(uint64_t, up1) X(uint64_t, up2) X(uint8_t, null_val) X(uint8_t, null_slot)
V_DEFINE_INPUTS(H_INPUTS)

static list_node *mknode(uint64_t up) {
    list_node *n = malloc(sizeof *n); V_ASSUME(n != NULL);
    n->userptr = (void *)(uintptr_t)(up | 1);
    n->next = V_INVALID_PTR(list_node *);
    return n;
}
static void common_init(void) {
    v_inputs_init(); v_base_init();
    g_dtor_calls = 0; g_dtor_arg = NULL;
    g_l = NULL; g_first = g_P = g_C = NULL; g_slot = NULL; g_itr = g_itr_in = NULL; g_Cd = &g_dummy_node;
    g_oom_mask = vin_oom & 1;
}
static void build_list(void) {
    V_ASSUME(vin_len < V_LLEN_MAX);
    g_l = malloc(sizeof *g_l); V_ASSUME(g_l != NULL);
    g_l->len = vin_len; g_l->dtor = vin_has_dtor ? v_elem_dtor : NULL; g_l->comp = NULL;
    if (vin_len == 0) g_first = NULL;
    else { g_first = mknode(vin_up0); if (vin_len == 1) g_first->next = NULL; }
    g_l->data = g_first;
}
/* pos 0: slot &l->data; pos 1: slot &P->next with P first; pos 2: P interior.  null_slot&2: P is the last node (C == NULL) */
static void build_itr(void) {
    V_ASSUME(vin_len < V_LLEN_MAX && vin_pos <= 2 && vin_diff > -V_DIFF_MAX && vin_diff < V_DIFF_MAX);
    g_l = malloc(sizeof *g_l); V_ASSUME(g_l != NULL);
    g_l->len = vin_len; g_l->dtor = vin_has_dtor ? v_elem_dtor : NULL; g_l->comp = NULL;
    g_itr = malloc(sizeof *g_itr); V_ASSUME(g_itr != NULL);
    g_itr->l = g_l; g_itr->diff = vin_diff;
    g_first = g_P = g_C = NULL;
    if (vin_len == 0) { V_ASSUME(vin_pos == 0); }
    else if (vin_pos == 0) {
        g_C = mknode(vin_up0); g_first = g_C;
        if (vin_c_last) { V_ASSUME(vin_len == 1); g_C->next = NULL; } else V_ASSUME(vin_len >= 2);
    } else {
        g_P = mknode(vin_up0);
        if (vin_pos == 1) g_first = g_P; else { g_first = mknode(vin_up2); V_ASSUME(vin_len >= 2); }
        if (vin_null_slot & 2) { g_P->next = NULL; g_C = NULL; if (vin_pos == 1) V_ASSUME(vin_len == 1); }
        else { g_C = mknode(vin_up1); g_P->next = g_C; V_ASSUME(vin_len >= (vin_pos == 1 ? 2 : 3));
               if (vin_c_last) g_C->next = NULL; }
    }
    g_l->data = g_first;
    g_slot = g_P ? &g_P->next : &g_l->data;
    g_itr->elem = g_slot;
    g_Cd = g_C ? g_C : &g_dummy_node;
    if (g_first && vin_len == 1 && g_first->next != NULL) V_ASSUME(0);
    if (g_first && vin_len >= 2 && g_first->next == NULL) V_ASSUME(0);
}

void h_l_new(void) { common_init(); m_list_t *l = VC(m_list_new)(NULL, vin_has_dtor ? v_elem_dtor : NULL);
    V_COVER("new-ok", l != NULL); V_COVER("new-oom", l == NULL); V_CANARY(); }
void h_l_len(void) { common_init(); build_list(); ssize_t n = VC(m_list_len)(vin_null_arg ? NULL : g_l);
    V_COVER("len-big", !vin_null_arg && vin_len == 1000000); (void)n; V_CANARY(); }
void h_l_itr_new(void) { common_init(); build_list(); m_list_itr_t *i = VC(m_list_itr_new)(vin_null_arg ? NULL : g_l);
    V_COVER("itrnew-ok", i != NULL); V_COVER("itrnew-empty", i == NULL && !vin_null_arg && vin_len == 0); V_CANARY(); }
void h_l_itr_next(void) { common_init(); build_itr();
    m_list_itr_t *slot = (vin_null_slot & 1) ? NULL : g_itr; g_itr_in = slot;
    int r = VC(m_list_itr_next)(vin_null_arg ? NULL : &slot);
    V_COVER("next-mid", r == 0 && slot != NULL && vin_pos == 2 && vin_diff == 0);
    V_COVER("next-after-remove-more", r == 0 && slot != NULL && vin_diff == -1);
    V_COVER("next-after-insert", r == 0 && slot != NULL && vin_diff == 1);
    V_COVER("next-ends-at-last", r == 0 && slot == NULL && vin_diff == 0 && g_C != NULL && !(vin_null_slot & 1) && !vin_null_arg);
    V_COVER("next-ends-after-remove", r == 0 && slot == NULL && g_C == NULL && !(vin_null_slot & 1) && !vin_null_arg);
    V_CANARY(); }
void h_l_itr_get(void) { common_init(); build_itr();
    void *d = VC(m_list_itr_get_data)(vin_null_arg ? NULL : g_itr);
    V_COVER("get-ok", d != NULL); V_COVER("get-at-end", d == NULL && !vin_null_arg); V_CANARY(); }
void h_l_itr_set(void) { common_init(); build_itr();
    int r = VC(m_list_itr_set_data)(vin_null_arg ? NULL : g_itr, vin_null_val ? NULL : (void *)(uintptr_t)(vin_up2 | 1));
    V_COVER("set-ok", r == 0); V_COVER("set-guard", r != 0 && !vin_null_arg && !vin_null_val); V_CANARY(); }
void h_l_itr_insert(void) { common_init(); build_itr();
    int r = VC(m_list_itr_insert)(vin_null_arg ? NULL : g_itr, vin_null_val ? NULL : (void *)(uintptr_t)(vin_up2 | 1));
    V_COVER("ins-front", r == 0 && vin_pos == 0); V_COVER("ins-middle", r == 0 && vin_pos == 2 && g_C != NULL);
    V_COVER("ins-at-end", r == 0 && g_C == NULL && g_P != NULL); V_COVER("ins-oom", r == -ENOMEM);
    V_CANARY(); }
void h_l_itr_remove(void) { common_init(); build_itr();
    int r = VC(m_list_itr_remove)(vin_null_arg ? NULL : g_itr);
    V_COVER("itrrm-first-of-many", r == 0 && vin_pos == 0 && !vin_c_last);
    V_COVER("itrrm-only", r == 0 && vin_pos == 0 && vin_c_last);
    V_COVER("itrrm-middle", r == 0 && vin_pos == 2 && !vin_c_last);
    V_COVER("itrrm-last", r == 0 && vin_pos == 2 && vin_c_last);
    V_COVER("itrrm-at-end", r == -EINVAL && !vin_null_arg);
    V_CANARY(); }

/* ===================================== bounded stand-ins ============================================ */
#ifndef V_K
#define V_K 4
#endif
/* element values: small ids so that duplicates (multiset) and comparator-equal-but-distinct pointers occur.
 * value = 0x100 + 16*key + tiebreak ; the comparator looks at the key only */
#define V_VAL(key, tb) ((void *)(uintptr_t)(0x100 + 16 * (key) + (tb)))
#define V_KEY(p) ((((uintptr_t)(p)) - 0x100) / 16)
/* key 3 plays the role of a value the user comparator never reports equal, not even to itself (a disabled entry, a NaN): such an
 * element can still be found / removed through its own pointer */
static int v_cmp(void *a, void *b) { size_t ka = V_KEY(a), kb = V_KEY(b); if (ka == 3 || kb == 3) return 1; return ka == kb ? 0 : (ka < kb ? -1 : 1); }
static size_t g_dlog_n; static void *g_dlog[V_K + 4];
static void v_log_dtor(void *p) { if (g_dlog_n < V_K + 4) g_dlog[g_dlog_n] = p; g_dlog_n++; g_dtor_calls++; g_dtor_arg = p; }

#define B_INPUTS(X) X(uint8_t, n) X(uint8_t, has_dtor) X(uint8_t, has_cmp) X(uint32_t, keys) X(uint32_t, script) X(uint8_t, extra) X(uint8_t, arg)
V_DEFINE_INPUTS_2(B_INPUTS)

static void *g_init[V_K + 4];
static m_list_t *build_full(void) {
    m_list_t *l = malloc(sizeof *l); V_ASSUME(l != NULL);
    l->len = vin_n; l->dtor = vin_has_dtor ? v_log_dtor : NULL; l->comp = vin_has_cmp ? v_cmp : NULL; l->data = NULL;
    list_node *prevn = NULL;
    for (size_t i = 0; i < vin_n; i++) {
        list_node *e = malloc(sizeof *e); V_ASSUME(e != NULL);
        g_init[i] = V_VAL((vin_keys >> (2 * i)) & 3, i + 1);     /* key in 0..3, distinct pointers */
        e->userptr = g_init[i]; e->next = NULL;
        if (prevn) prevn->next = e; else l->data = e;
        prevn = e;
    }
    g_dlog_n = 0;
    return l;
}
static bool view(m_list_t *l, void **out, size_t cap, size_t *n) {
    size_t k = 0; list_node *e = l->data;
    while (e && k < cap) { out[k++] = e->userptr; e = e->next; }
    *n = k;
    return e == NULL && l->len == k;
}
static bool matches(void *data, void *e) { return (vin_has_cmp && v_cmp(data, e) == 0) || e == data; }

void h_lb_clear(void) {
    v_inputs2_init(); v_base_init(); g_dtor_calls = 0;
    V_ASSUME(vin_n <= V_K);
    m_list_t *l = build_full();
    int r = vin_extra & 1 ? m_list_free(&l) : m_list_clear(l);
    if (vin_extra & 1) V_CHECK("C12.free-releases-everything", r == 0 && l == NULL && g_free_calls == (size_t)vin_n + 1 + (vin_n ? 1 : 0));
    else V_CHECK("C12.clear-empties", r == 0 && l->len == 0 && l->data == NULL && g_free_calls == (size_t)vin_n + (vin_n ? 1 : 0));
    V_CHECK("C12.dtor-exactly-once-per-dropped-element", g_dlog_n == (vin_has_dtor ? vin_n : 0));
    for (size_t i = 0; i < V_K; i++) if (i < g_dlog_n) V_CHECK("C12.dtor-exactly-once-per-dropped-element", g_dlog[i] == g_init[i]);
    V_COVER("clear-full", vin_n == V_K && vin_has_dtor); V_COVER("clear-empty", vin_n == 0);
    V_CANARY();
}
/* insert / remove / find on an arbitrary list against the sequence model */
void h_lb_insert(void) {
    v_inputs2_init(); v_base_init(); g_dtor_calls = 0;
    V_ASSUME(vin_n <= V_K);
    m_list_t *l = build_full();
    void *x = V_VAL(vin_arg & 3, 9);
    int r = m_list_insert(l, x);
    void *v[V_K + 2]; size_t vn;
    V_CHECK("C12.list-insert-adds-one", r == 0 && view(l, v, V_K + 2, &vn) && vn == (size_t)vin_n + 1);
    /* the result is the old sequence with x spliced in at one position: others keep their relative order */
    size_t at = V_K + 9;
    for (size_t i = 0; i < V_K + 1; i++) if (i < vn && v[i] == x && at > V_K + 1) at = i;
    V_CHECK("C12.list-insert-adds-one", at <= vin_n);
    for (size_t i = 0; i < V_K; i++) if (i < vin_n) V_CHECK("C12.list-keeps-relative-order-of-others", v[i < at ? i : i + 1] == g_init[i]);
    V_CHECK("C12.no-dtor-on-insert", g_dlog_n == 0);
    V_COVER("insert-before-equal", vin_has_cmp && at > 0 && at < vin_n); V_COVER("insert-front-nocmp", !vin_has_cmp && vin_n == 3);
    V_CANARY();
}
void h_lb_remove(void) {
    v_inputs2_init(); v_base_init(); g_dtor_calls = 0;
    V_ASSUME(vin_n <= V_K);
    m_list_t *l = build_full();
    void *x = (vin_extra & 1) ? g_init[(vin_arg >> 2) % V_K] : V_VAL(vin_arg & 3, 9);   /* a pointer that is in the list, or only comparator-equal */
    if ((vin_extra & 1) && ((vin_arg >> 2) % V_K) >= vin_n) x = V_VAL(vin_arg & 3, 9);
    size_t idx = V_K + 9;
    for (size_t i = 0; i < V_K; i++) if (i < vin_n && idx > V_K && matches(x, g_init[i])) idx = i;
    void *found = m_list_find(l, x);
    V_CHECK("C12.list-find-first-match", found == (idx < vin_n ? g_init[idx] : NULL));
    int r = m_list_remove(l, x);
    void *v[V_K + 2]; size_t vn;
    bool okv = view(l, v, V_K + 2, &vn);
    if (vin_n == 0) V_CHECK("C12.list-remove-empty", r == -EINVAL);
    else if (idx >= vin_n) {
        V_CHECK("C12.list-remove-absent-no-effect", r == -ENOENT && okv && vn == vin_n && g_dlog_n == 0);
        for (size_t i = 0; i < V_K; i++) if (i < vin_n) V_CHECK("C12.list-remove-absent-no-effect", v[i] == g_init[i]);
    } else {
        V_CHECK("C12.list-remove-first-match", r == 0 && okv && vn == (size_t)vin_n - 1);
        for (size_t i = 0; i < V_K; i++) if (i + 1 < vin_n) V_CHECK("C12.list-keeps-relative-order-of-others", v[i] == g_init[i < idx ? i : i + 1]);
        V_CHECK("C12.dtor-exactly-once-per-dropped-element", g_dlog_n == (vin_has_dtor ? 1 : 0) && (!vin_has_dtor || g_dlog[0] == g_init[idx]));
    }
    V_COVER("remove-by-cmp-middle", vin_has_cmp && idx == 1 && vin_n == 3 && !(vin_extra & 1)); V_COVER("remove-by-ptr-last", !vin_has_cmp && idx == 2 && vin_n == 3);
    V_COVER("remove-absent", vin_n == 2 && idx > V_K);
    V_CANARY();
}
static void *g_seen[V_K + 2]; static size_t g_nseen; static uint32_t g_script;
static int v_iter_cb(void *up, void *data) {
    V_CHECK("C12.iterate-passes-userptr", up == (void *)&g_script);
    if (g_nseen < V_K + 2) g_seen[g_nseen] = data;
    int rc = (int)((g_script >> (2 * g_nseen)) & 3) - 1;
    g_nseen++;
    return rc;
}
void h_lb_iterate(void) {
    v_inputs2_init(); v_base_init(); g_nseen = 0; g_script = vin_script;
    V_ASSUME(vin_n <= V_K);
    m_list_t *l = build_full();
    int r = m_list_iterate(l, v_iter_cb, &g_script);
    size_t stop = vin_n; int rc_stop = 0;
    for (size_t i = 0; i < vin_n; i++) { int rc = (int)((vin_script >> (2 * i)) & 3) - 1; if (rc != 0) { stop = i + 1; rc_stop = rc; break; } }
    V_CHECK("C12.iterate-visits-in-order-until-stopped", g_nseen == (vin_n == 0 ? 0 : stop));
    for (size_t i = 0; i < V_K; i++) if (i < g_nseen) V_CHECK("C12.iterate-visits-in-order-until-stopped", g_seen[i] == g_init[i]);
    V_CHECK("C12.iterate-result", r == (vin_n == 0 ? -EINVAL : (rc_stop < 0 ? rc_stop : 0)));
    V_COVER("iterate-all", g_nseen == V_K);
    V_CANARY();
}
/* iterator walk: keep / remove / replace at every element (insertion is specified as coded by the window contract) */
void h_lb_walk(void) {
    v_inputs2_init(); v_base_init(); g_dtor_calls = 0;
    V_ASSUME(vin_n <= V_K);
    m_list_t *l = build_full();
    void *model[V_K + 1]; size_t mn = 0; size_t visited = 0, removed = 0;
    m_list_itr_t *it = m_list_itr_new(l);
    V_CHECK("C12.itr-new-iff-nonempty", (it != NULL) == (vin_n > 0));
    for (size_t step = 0; it != NULL && step < V_K + 1; step++) {
        unsigned act = (vin_script >> (2 * step)) & 3;
        void *cur = m_list_itr_get_data(it);
        V_CHECK("C12.itr-visits-each-remaining-element-once-in-order", step < vin_n && cur == g_init[step]);
        visited++;
        if (act == 1) { V_CHECK("C12.itr-remove-ok", m_list_itr_remove(it) == 0); removed++; }
        else if (act == 2) { V_CHECK("C12.itr-set-ok", m_list_itr_set_data(it, V_VAL(3, 12)) == 0); model[mn++] = V_VAL(3, 12); }
        else model[mn++] = cur;
        m_list_itr_next(&it);
    }
    V_CHECK("C12.itr-visits-each-remaining-element-once-in-order", it == NULL && visited == vin_n);
    V_CHECK("C12.dtor-exactly-once-per-dropped-element", g_dlog_n == (vin_has_dtor ? removed : 0));
    void *v[V_K + 2]; size_t vn;
    V_CHECK("C12.view-matches-model", view(l, v, V_K + 2, &vn) && vn == mn && m_list_len(l) == (ssize_t)mn);
    for (size_t i = 0; i < V_K; i++) if (i < mn) V_CHECK("C12.view-matches-model", v[i] == model[i]);
    V_COVER("walk-remove-last", vin_n == 3 && ((vin_script >> 4) & 3) == 1 && (vin_script & 15) == 0);
    V_COVER("walk-remove-all", vin_n == V_K && mn == 0);
    V_CANARY();
}

#ifdef V_NATIVE
V_NATIVE_MAIN(V_H(h_l_new), V_H(h_l_len), V_H(h_l_itr_new), V_H(h_l_itr_next), V_H(h_l_itr_get), V_H(h_l_itr_set), V_H(h_l_itr_insert), V_H(h_l_itr_remove),
              V_H(h_lb_clear), V_H(h_lb_insert), V_H(h_lb_remove), V_H(h_lb_iterate), V_H(h_lb_walk))
#endif
