/* Proof units for the per-module source registry (C09, C13, C18, C20): register_mod_src(), deregister_mod_src(), create_src() -- REAL Lib/core/src.c. */
#ifdef V_SRCLENU_UNIT
#define V_SELPRE(i) (type == M_SRC_TYPE_END ? g_PL[i] - g_PL[1] : (((unsigned)type >= 1 && (unsigned)type < (unsigned)(i)) ? g_LL[(unsigned)type] : 0))
#define V_SUBSDONE  ((type == M_SRC_TYPE_PS || type == M_SRC_TYPE_END) ? g_LL[0] : 0)
#define M_VERIF_LOOPSPEC_len_subs \
    __CPROVER_assigns(m_itr, m_idx, len, g_mit->idx, g_psrc->flags, g.visited, g.visited_user) \
    __CPROVER_loop_invariant(m_itr == NULL ? (g.visited - g_v0 == g_LL[0]) : (m_itr == (m_map_itr_t *)g_mit && g_mit->m == (m_map_t *)&g_lsubs && g_mit->idx < g_lsubs.len && g.visited - g_v0 == g_mit->idx)) \
    __CPROVER_loop_invariant(len >= 0 && (size_t)len == g.visited_user - g_u0 && g.visited_user - g_u0 <= g.visited - g_v0 && g.visited - g_v0 <= g_LL[0])
#define M_VERIF_LOOPSPEC_len_kinds \
    __CPROVER_assigns(i, len, g_bit->t, g_bit->idx, g_bit->removed, g_psrc->flags, g.visited, g.visited_user) \
    __CPROVER_loop_invariant(M_SRC_TYPE_FD <= i && i <= M_SRC_TYPE_END) \
    __CPROVER_loop_invariant(g.visited - g_v0 == V_SUBSDONE + V_SELPRE(i)) \
    __CPROVER_loop_invariant(len >= 0 && (size_t)len == g.visited_user - g_u0 && g.visited_user - g_u0 <= g.visited - g_v0) \
    __CPROVER_decreases(M_SRC_TYPE_END - i)
#define M_VERIF_LOOPSPEC_len_srcs \
    __CPROVER_assigns(m_itr, m_idx, len, g_bit->idx, g_psrc->flags, g.visited, g.visited_user) \
    __CPROVER_loop_invariant(M_SRC_TYPE_FD <= i && i < M_SRC_TYPE_END && (type == M_SRC_TYPE_END || (unsigned)type == (unsigned)i)) \
    __CPROVER_loop_invariant(m_itr == NULL ? (g.visited - g_v0 == V_SUBSDONE + V_SELPRE(i) + g_LL[i]) \
                                           : (m_itr == (m_bst_itr_t *)g_bit && g_bit->t == (m_bst_t *)&g_lsets[i] && g_bit->idx < g_lsets[i].len && g.visited - g_v0 == V_SUBSDONE + V_SELPRE(i) + g_bit->idx)) \
    __CPROVER_loop_invariant(len >= 0 && (size_t)len == g.visited_user - g_u0 && g.visited_user - g_u0 <= g.visited - g_v0)
#endif
#include "vmodel.h"
#ifdef V_SRCLENU_UNIT
static struct _bst g_lsets[M_SRC_TYPE_END]; static struct _map g_lsubs;
#endif
#include "core/src.c"               /* real */
int g_newfd;
#ifdef V_SRCLENU_UNIT
#define V_MSRCS_UNIT      /* (own iterator contracts: leave the empty-set iterator contract of abs.contracts.h out) */
#include "abs.contracts.h"
#include "srclen.contracts.h"
#elif !defined(V_SRCLEN_UNIT)
#include "abs.contracts.h"
#include "src.contracts.h"
#endif

#ifndef V_SRCLEN_UNIT
#define H_INPUTS(X) V_MOD_INPUTS(X) X(uint8_t, type) X(uint32_t, sflags) X(uint8_t, present) X(int32_t, ins_ret) X(int32_t, poll_ret) X(int32_t, task_ret) X(uint64_t, setlen) X(uint64_t, d0) X(uint64_t, d1) X(uint64_t, d2) X(int32_t, newfd)
V_DEFINE_INPUTS(H_INPUTS)
#include "vbuild.h"
static uint64_t g_data[4];        /* the caller's identifying value (32 bytes: large enough for every m_src_*_t) */
static char g_pathbuf[2] = "p";
static void build_reg(void) {
    build();
    V_ASSUME(vin_type >= M_SRC_TYPE_FD && vin_type < M_SRC_TYPE_END && vin_setlen < ((uint64_t)1 << 59) && (vin_ins_ret == 0 || vin_ins_ret == -ENOMEM) && (vin_poll_ret == 0 || vin_poll_ret == -1) && vin_task_ret <= 0 && vin_task_ret > -200);
    g_mctx = g_ctx; g_mod->state = (m_mod_states)(vin_state & ~M_MOD_ZOMBIE); V_ASSUME(v_state_valid(g_mod->state));
    g_set = malloc(sizeof *g_set); __CPROVER_assume(g_set != NULL); g_set->len = vin_setlen; g_set->internal = 0; g_mod->srcs[vin_type] = (m_bst_t *)g_set;
    g_key_present = vin_present & 1; g_bstins_ret = vin_ins_ret; g_pollinit_ret = vin_poll_ret; g_ips_ret = vin_task_ret; g_newfd = vin_newfd;
    g_data[0] = vin_d0; g_data[1] = vin_d1; g_data[2] = vin_d2; g_data[3] = 0;
    if (vin_type == M_SRC_TYPE_PATH) ((m_src_path_t *)g_data)->path = g_pathbuf;
}
#endif
#ifdef V_SRCLEN_UNIT
/* m_mod_src_len(): bounded stand-in.  The iterators are executable stubs over ghost sets (every element visited exactly once, in index order -- the
 * fact the container units establish for the real iterators); each of the 8 sets (subscriptions + 7 kinds) holds <= V_NSRC sources, each flagged
 * library-internal or not by the solver. */
#ifndef V_NSRC
#define V_NSRC 2
#endif
static ev_src_t g_el[M_SRC_TYPE_END][V_NSRC]; static struct _bst g_sets[M_SRC_TYPE_END]; static struct _map g_submap;
static int v_cidx(const void *t) { for (int i = M_SRC_TYPE_FD; i < M_SRC_TYPE_END; i++) if (t == (const void *)&g_sets[i]) return i; return 0; }
m_bst_itr_t *m_bst_itr_new(const m_bst_t *t) { if (!t || ((const struct _bst *)t)->len == 0) return NULL; struct _bst_itr *i = malloc(sizeof *i); __CPROVER_assume(i != NULL); i->t = (m_bst_t *)t; i->idx = 0; return (m_bst_itr_t *)i; }
int m_bst_itr_next(m_bst_itr_t **itr) { struct _bst_itr *i = (struct _bst_itr *)*itr; i->idx++; if (i->idx >= ((struct _bst *)i->t)->len) { free(i); *itr = NULL; } return 0; }
void *m_bst_itr_get_data(const m_bst_itr_t *itr) { const struct _bst_itr *i = (const struct _bst_itr *)itr; return &g_el[v_cidx(i->t)][i->idx]; }
m_map_itr_t *m_map_itr_new(const m_map_t *m) { if (!m || ((const struct _map *)m)->len == 0) return NULL; struct _map_itr *i = malloc(sizeof *i); __CPROVER_assume(i != NULL); i->m = (m_map_t *)m; i->idx = 0; return (m_map_itr_t *)i; }
int m_map_itr_next(m_map_itr_t **itr) { struct _map_itr *i = (struct _map_itr *)*itr; i->idx++; if (i->idx >= ((struct _map *)i->m)->len) { free(i); *itr = NULL; } return 0; }
void *m_map_itr_get_data(const m_map_itr_t *itr) { const struct _map_itr *i = (const struct _map_itr *)itr; return &g_el[0][i->idx]; }
bool m_mod_is(const m_mod_t *mod, m_mod_states st) { return mod != NULL && (mod->state & st) != 0; }
m_ctx_t *m_ctx(void) { return g_mctx; }
#define SL_INPUTS(X) X(uint8_t, type) X(uint64_t, lens) X(uint32_t, internal) X(uint8_t, state)
V_DEFINE_INPUTS(SL_INPUTS)
static m_mod_t g_modobj; static m_ctx_t g_ctxobj;
void h_src_len(void) {
    v_inputs_init(); v_base_init();
    V_ASSUME(vin_type <= M_SRC_TYPE_END && v_state_valid(vin_state) && !(vin_state & M_MOD_ZOMBIE));
    g_mod = &g_modobj; g_ctx = &g_ctxobj; g_mctx = g_ctx; g_mod->ctx = g_ctx; g_mod->state = (m_mod_states)vin_state;
    size_t expect_kind[M_SRC_TYPE_END]; size_t total = 0;
    for (int k = 0; k < M_SRC_TYPE_END; k++) {
        size_t n = (vin_lens >> (4 * k)) & 0xf; V_ASSUME(n <= V_NSRC);
        expect_kind[k] = 0;
        for (size_t j = 0; j < V_NSRC; j++) { bool in = (vin_internal >> (k * V_NSRC + j)) & 1; g_el[k][j].flags = in ? M_SRC_INTERNAL : 0; g_el[k][j].type = (m_src_types)k; if (j < n && !in) expect_kind[k]++; }
        total += expect_kind[k];
        if (k == 0) { g_submap.len = n; g_mod->subscriptions = (m_map_t *)&g_submap; g_mod->srcs[0] = NULL; } else { g_sets[k].len = n; g_mod->srcs[k] = (m_bst_t *)&g_sets[k]; }
    }
    ssize_t r = m_mod_src_len(g_mod, (m_src_types)vin_type);
    /* the count reported for one kind is the size of that kind's set, library-internal sources excluded; M_SRC_TYPE_END asks for all kinds together */
    V_CHECK("C09.reported-count-equals-the-size-of-that-kinds-set-internal-excluded", r == (ssize_t)(vin_type == M_SRC_TYPE_END ? total : expect_kind[vin_type]));
    V_COVER("len-timers-only", vin_type == M_SRC_TYPE_TMR && r == 1 && total == 3); V_COVER("len-all", vin_type == M_SRC_TYPE_END && r == 5); V_COVER("len-subscriptions", vin_type == M_SRC_TYPE_PS && r == 2 && total > 2);
    V_CANARY();
}
#elif defined(V_SRCLENU_UNIT)
void h_src_len_u(void) {
    build_reg();
    g_mctx = g_ctx;
    g_bit = malloc(sizeof *g_bit); g_mit = malloc(sizeof *g_mit); g_psrc = malloc(sizeof *g_psrc); __CPROVER_assume(g_bit && g_mit && g_psrc);
    g_bit->t = NULL; g_bit->idx = 0; g_bit->removed = false; g_mit->m = NULL; g_mit->idx = 0; g_psrc->flags = 0; g_psrc->mod = g_mod;
    uint64_t lens[8] = { vin_d0, vin_d1, vin_d2, vin_setlen & 7, (vin_setlen >> 3) & 7, (vin_setlen >> 6) & 7, (vin_setlen >> 9) & 7, (vin_setlen >> 12) & 7 };
    g_PL[0] = 0;
    for (int k = 0; k < M_SRC_TYPE_END; k++) { V_ASSUME(lens[k] < 1000000); g_LL[k] = lens[k]; g_PL[k + 1] = g_PL[k] + lens[k];
        if (k == 0) { g_lsubs.len = lens[0]; g_lsubs.internal = 0; g_mod->subscriptions = (m_map_t *)&g_lsubs; g_mod->srcs[0] = NULL; } else { g_lsets[k].len = lens[k]; g_lsets[k].internal = 0; g_mod->srcs[k] = (m_bst_t *)&g_lsets[k]; } }
    g_v0 = g.visited; g_u0 = g.visited_user;
    ssize_t r = m_mod_src_len(g_mod, (m_src_types)vin_sflags);
    V_COVER("len-all-many", vin_sflags == M_SRC_TYPE_END && r == 1234 && vin_d1 == 2000); V_COVER("len-timers-only", vin_sflags == M_SRC_TYPE_TMR && r == 3 && vin_d1 == 7 && vin_d2 == 5);
    V_COVER("len-subscriptions", vin_sflags == M_SRC_TYPE_PS && r == 2 && vin_d1 > 0); V_COVER("len-bad-type", r == -EINVAL);
    V_CANARY();
}
#elif defined(V_SRCREG_UNIT)
void h_register_mod_src(void) {
    build_reg();
    int r = register_mod_src(g_mod, (m_src_types)vin_type, g_data, (m_src_flags)vin_sflags, &g_data[3]);
    V_COVER("reg-new-running", r == 0 && !vin_present && (vin_state & M_MOD_RUNNING)); V_COVER("reg-new-idle", r == 0 && !vin_present && vin_state == M_MOD_IDLE); V_COVER("reg-dup", r == -EEXIST);
    V_COVER("reg-two-priorities", r == -EINVAL); V_COVER("reg-no-token", r == -EAGAIN); V_COVER("reg-task-running", r == 0 && vin_type == M_SRC_TYPE_TASK && (vin_state & M_MOD_RUNNING));
    V_COVER("reg-poll-fails", r < 0 && r != -EEXIST && r != -EINVAL && r != -EAGAIN && r != -ENOMEM);
    V_CANARY();
}
#elif defined(V_SRCDEREG_UNIT)
void h_deregister_mod_src(void) {
    build_reg();
    int r = deregister_mod_src(g_mod, (m_src_types)vin_type, g_data);
    V_COVER("dereg-present-timer", r == 0 && vin_type == M_SRC_TYPE_TMR); V_COVER("dereg-absent", r == -ENOENT); V_COVER("dereg-no-token", r == -EAGAIN);
    V_CANARY();
}
#elif defined(V_PROCPS_UNIT)
char *v_strerror(int e) { static char s[2]; (void)e; return s; }
void h_process_ps(void) {
    build_reg();
    g_psrc = malloc(sizeof *g_psrc); __CPROVER_assume(g_psrc != NULL); g_psrc->type = M_SRC_TYPE_PS; g_psrc->mod = g_mod; g_psrc->fd_src.fd = 7; g_psrc->flags = M_SRC_INTERNAL | M_SRC_PRIO_HIGH;
    g_pmsg = malloc(sizeof *g_pmsg); __CPROVER_assume(g_pmsg != NULL);
    static ev_src_t subobj; g_pmsg->sub = (vin_present & 1) ? &subobj : NULL; g_pmsg->msg.topic = (vin_present & 1) ? "t" : NULL;
    evt_priv_t *evt = malloc(sizeof *evt); __CPROVER_assume(evt != NULL); evt->src = g_psrc; evt->evt.ps_evt = NULL; evt->evt.type = M_SRC_TYPE_PS;
    g.pipe_len = vin_setlen;
    ev_src_t *r = process_ps(g_psrc, g_ctx, 0, evt);
    V_COVER("ps-message-with-subscription", vin_setlen > 0 && r == &subobj); V_COVER("ps-direct-message", vin_setlen > 0 && r == NULL); V_COVER("ps-nothing-to-read", vin_setlen == 0);
    V_CANARY();
}
#elif defined(V_CREATESRC_UNIT)
static ev_src_t *v_proc(ev_src_t *this, m_ctx_t *c, int idx, evt_priv_t *evt) { (void)c; (void)idx; (void)evt; return this; }
void h_create_src(void) {
    build_reg();
    V_ASSUME(vin_type != M_SRC_TYPE_PATH || !(vin_sflags & M_SRC_DUP));     /* path duplication (mem_strdup of the path) is left to the allocation units */
    ev_src_t *s = create_src(vin_has_curr ? g_mod : NULL, (m_src_types)(vin_present & 1 ? M_SRC_TYPE_PS : vin_type), v_proc, g_data, (m_src_flags)vin_sflags, &g_data[3]);
    V_COVER("create-fd-dup", s != NULL && vin_type == M_SRC_TYPE_FD && !(vin_present & 1) && (vin_sflags & M_SRC_DUP)); V_COVER("create-task", s != NULL && vin_type == M_SRC_TYPE_TASK && !(vin_present & 1));
    V_COVER("create-ps", s != NULL && (vin_present & 1)); V_COVER("create-tmr-low", s != NULL && vin_type == M_SRC_TYPE_TMR && !(vin_present & 1) && (vin_sflags & M_SRC_PRIO_LOW));
    V_CANARY();
}
#endif
