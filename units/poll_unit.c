/* Proof units for descriptor hygiene (C20): poll_set_new_evt() [real poll/epoll.c + real poll/cmn_linux.c] and src_priv_dtor() [real src.c]. */
#include "vmodel.h"
#if defined(V_POLL_UNIT) || defined(V_POLLCD_UNIT)
#include "core/poll/epoll.c"        /* real */
#include "core/poll/cmn_linux.c"    /* real */
static epoll_priv_t g_ep; static poll_priv_t g_ppriv; static struct epoll_event *g_ev; static struct epoll_event *g_pev;
#else
#include "core/src.c"               /* real */
#endif
int g_newfd, g_ep_ret;
#include "abs.contracts.h"
#include "fd.contracts.h"
#include "poll.contracts.h"
/* pidfd_open goes through the variadic syscall(): a body instead of a contract (DFCC cannot attach contracts to variadic functions) */
long v_syscall(long nr, ...) { (void)nr; g.fd_opened++; g_open_fd = g_newfd; return g_newfd; }

#define H_INPUTS(X) V_MOD_INPUTS(X) X(uint8_t, type) X(uint32_t, sflags) X(uint8_t, registered) X(uint8_t, flag) X(int32_t, newfd) X(int32_t, ep_ret) X(int32_t, userfd) X(uint8_t, has_mod) X(uint64_t, oom)
V_DEFINE_INPUTS(H_INPUTS)
#include "vbuild.h"

static void build_src(void) {
    build();
    V_ASSUME(vin_type < M_SRC_TYPE_END && (vin_newfd == -1 || vin_newfd >= V_LIBFD_BASE) && vin_ep_ret <= 0 && vin_ep_ret >= -1 && vin_userfd >= 0 && vin_userfd < V_LIBFD_BASE);
    g_psrc = malloc(sizeof *g_psrc); __CPROVER_assume(g_psrc != NULL);
    g_psrc->type = (m_src_types)vin_type; g_psrc->flags = (m_src_flags)vin_sflags; g_psrc->mod = vin_has_mod ? g_mod : NULL; g_psrc->userptr = NULL;
    g_newfd = vin_newfd; g_ep_ret = vin_ep_ret; g_open_fd = -1;
    g_psrc->tmr_src.its.ns = 5; g_psrc->tmr_src.its.clock_id = CLOCK_MONOTONIC; g_psrc->sgn_src.sgs.signo = 10; g_psrc->path_src.pt.path = "p"; g_psrc->path_src.pt.events = 1; g_psrc->pid_src.pid.pid = 5;
    g_psrc->ev = NULL;
    if (vin_type > M_SRC_TYPE_FD) {
        if (vin_registered) { g_psrc->fd_src.fd = V_LIBFD_BASE + 7; g_open_fd = V_LIBFD_BASE + 7; } else g_psrc->fd_src.fd = -1;
    } else g_psrc->fd_src.fd = vin_userfd;
}
#if defined(V_POLL_UNIT) && !defined(V_POLLCD_UNIT)
void h_poll_set_new_evt(void) {
    build_src();
    g_ppriv.data = &g_ep; g_ep.fd = 3; g_oom_mask = vin_oom & 1;
    if (vin_registered) { g_ev = malloc(sizeof *g_ev); __CPROVER_assume(g_ev != NULL); g_psrc->ev = g_ev; } else g_ev = NULL;
    V_ASSUME(vin_flag <= 1 && (vin_flag == 1 || !vin_registered));
    /* pid sources create their descriptor through the variadic syscall(), which DFCC cannot instrument: ADD of a pid source is left out here */
    V_ASSUME(!(vin_type == M_SRC_TYPE_PID && vin_flag == 0));
    int r = poll_set_new_evt(&g_ppriv, g_psrc, vin_flag ? RM : ADD);
    V_COVER("add-timer", !vin_flag && vin_type == M_SRC_TYPE_TMR && !vin_registered && r == 0); V_COVER("rm-timer", vin_flag && vin_type == M_SRC_TYPE_TMR && vin_registered);
    V_COVER("rm-userfd", vin_flag && vin_type == M_SRC_TYPE_FD && vin_registered); V_COVER("rm-unregistered", vin_flag && !vin_registered); V_COVER("add-oneshot", !vin_flag && (vin_sflags & M_SRC_ONESHOT) && r == 0);
    V_CANARY();
}
#elif defined(V_POLLCD_UNIT)
void h_poll_create(void) {
    build_src();
    g_oom_mask = 0; g_ppriv.data = NULL;
    int r = poll_create(&g_ppriv);
    V_COVER("create-ok", r == 0); V_COVER("create-no-descriptor-left", r == -1);
    V_CANARY();
}
void h_poll_destroy(void) {
    build_src();
    V_ASSUME(vin_newfd >= V_LIBFD_BASE);
    g_ppriv.data = &g_ep; g_ep.fd = vin_newfd; g_open_fd = vin_newfd;
    if (vin_registered) { g_pev = malloc(4 * sizeof *g_pev); __CPROVER_assume(g_pev != NULL); g_ep.pevents = g_pev; } else { g_pev = NULL; g_ep.pevents = NULL; }
    int r = poll_destroy(&g_ppriv);
    V_COVER("destroy-after-a-loop", r == 0 && vin_registered); V_COVER("destroy-never-looped", r == 0 && !vin_registered);
    V_CANARY();
}
#elif defined(V_CTXSRC_UNIT)
void h_deregister_ctx_src(void) {
    build_src();
    static struct epoll_event evobj;
    V_ASSUME(vin_type == M_SRC_TYPE_TMR && !vin_has_mod);
    if (vin_registered) g_psrc->ev = &evobj;
    g_ctx->tick.src = vin_flag ? g_psrc : NULL; g_ctx->state = vin_ctx_state;
    deregister_ctx_src(g_ctx, vin_userfd ? &g_ctx->tick.src : NULL);
    V_COVER("dereg-tick-while-looping", vin_flag && vin_userfd && vin_registered && vin_ctx_state == M_CTX_LOOPING);
    V_COVER("dereg-tick-registered-while-idle", vin_flag && vin_userfd && vin_registered && vin_ctx_state == M_CTX_IDLE);
    V_COVER("dereg-no-tick", !vin_flag && vin_userfd);
    V_CANARY();
}
#else
void h_src_priv_dtor(void) {
    build_src();
    V_ASSUME(!(vin_sflags & M_SRC_DUP) && !(vin_sflags & M_SRC_AUTOFREE));
    static struct epoll_event evobj;
    V_ASSUME(vin_has_mod || !vin_registered);
    if (vin_registered) g_psrc->ev = &evobj;
    if (vin_type <= M_SRC_TYPE_FD && (vin_sflags & M_SRC_FD_AUTOCLOSE)) g_open_fd = vin_userfd;
#ifdef V_KF_C20_SOURCE_OUTLIVES_MODULE   /* known finding: exclude registered sources destroyed while their module is not RUNNING */
    V_ASSUME(!(vin_registered && vin_type > M_SRC_TYPE_FD && !(vin_has_mod && vin_state == M_MOD_RUNNING)));
#endif
    src_priv_dtor(g_psrc);
    V_COVER("dtor-running-timer", vin_has_mod && vin_state == M_MOD_RUNNING && vin_type == M_SRC_TYPE_TMR && vin_registered);
    V_COVER("dtor-stopped-module-timer-unregistered", vin_has_mod && vin_state == M_MOD_STOPPED && vin_type == M_SRC_TYPE_TMR && !vin_registered);
    V_COVER("dtor-autoclose-fd", vin_type == M_SRC_TYPE_FD && (vin_sflags & M_SRC_FD_AUTOCLOSE)); V_COVER("dtor-plain-fd", vin_type == M_SRC_TYPE_FD && !(vin_sflags & M_SRC_FD_AUTOCLOSE));
    V_CANARY();
}
#endif
