/* Real-code units for the sending side of Lib/core/ps.c (C02, C08, C04): the REAL ps.c together with the REAL mem.c (reference
 * counting), loop-free paths, full symbolic domain => complete for the function, no bound.  Plain CBMC (no contract
 * instrumentation: the contract-instrumented version of this unit exhausted memory).  External calls are small recording stubs. */
#include "vcore.h"
#include "mem/mem.c"              /* real reference counting */
#include "core/ps.c"              /* real */

/* ghost pipe of the recipient: accepts one pointer or is full */
static bool g_pipe_full; static size_t g_pipe_len, g_write_calls; static void *g_pipe_last; static int g_write_fd;
ssize_t v_write(int fd, const void *buf, size_t n) {
    g_write_calls++; g_write_fd = fd;
    V_CHECK("C08.one-pointer-per-write", n == sizeof(void *));
    if (g_pipe_full) { errno = EAGAIN; return -1; }
    memcpy(&g_pipe_last, buf, sizeof(void *)); g_pipe_len++;
    return (ssize_t)sizeof(void *);
}
char *v_strerror(int e) { static char s[2]; (void)e; return s; }
bool m_mod_is(const m_mod_t *mod, m_mod_states st) { return mod && (mod->state & st); }

#define H_INPUTS(X) X(uint8_t, state) X(uint8_t, has_topic) X(uint8_t, has_key) X(uint8_t, pipe_full) X(uint8_t, autofree) X(uint64_t, oom) X(uint64_t, pipe_len) X(uint32_t, flags_old) X(uint32_t, flags_new)
V_DEFINE_INPUTS(H_INPUTS)
static bool v_state_valid(unsigned s) { return s == M_MOD_IDLE || s == M_MOD_RUNNING || s == M_MOD_PAUSED || s == M_MOD_STOPPED || s == M_MOD_ZOMBIE; }

void h_tell_if_real(void) {
    v_inputs_init(); v_base_init();
    V_ASSUME(v_state_valid(vin_state) && vin_pipe_len < ((uint64_t)1 << 60));
    static m_mod_t recipient; static ev_src_t sub; static int payload_obj;
    int *payloadp = vin_autofree ? malloc(sizeof(int)) : &payload_obj; V_ASSUME(payloadp != NULL);     /* an auto-free payload is heap memory handed to the library */
#define payload (*payloadp)
    m_mod_t *sender = m_mem_new(sizeof(m_mod_t), NULL); V_ASSUME(sender != NULL);         /* a live, reference-counted module (1 reference) */
    ps_priv_t callers_msg = { { false, sender, vin_has_topic ? "t" : NULL, &payload }, vin_autofree ? M_PS_AUTOFREE : 0, NULL };   /* on the sender's stack, as in send_msg() */
    recipient.state = (m_mod_states)vin_state; recipient.name = "r"; recipient.pubsub_fd[0] = 7; recipient.pubsub_fd[1] = 8;
    g_pipe_full = vin_pipe_full & 1; g_pipe_len = vin_pipe_len; g_write_calls = 0; g_pipe_last = NULL;
    size_t a0 = g_alloc_calls, f0 = g_free_calls;
    g_oom_mask = (vin_oom & 1) << g_alloc_calls;
    int r = tell_if(&callers_msg, vin_has_key ? (const char *)&sub : NULL, &recipient);
    g_oom_mask = 0;
    /* the four call shapes of tell_if(): (no topic, no key) direct tell; (no topic, key = module name) broadcast; (topic, key = matched subscription) publish;
     * (topic, no key) direct SYSTEM tell to one recipient = the poison pill.  tell_subscribers() calls tell_if() only with the subscription it found, so
     * "topic without key" is never an unmatched publish: every shape is eligible when the recipient is RUNNING or PAUSED. */
    bool eligible = (vin_state & (M_MOD_RUNNING | M_MOD_PAUSED)) != 0;
    V_CHECK("C02.tell-returns-zero", r == 0);
    if (!eligible) {
        V_CHECK("C02.non-eligible-module-gets-nothing", g_alloc_calls == a0 && g_write_calls == 0 && g_pipe_len == vin_pipe_len && m_mem_size(sender) == sizeof(m_mod_t)
                                                         && ((mem_header_t *)((uint8_t *)sender - sizeof(mem_header_t) - ((uint8_t *)sender)[-1]))->refs == 1);
    } else {
        V_CHECK("C02.exactly-one-copy-per-eligible-recipient", g_alloc_calls == a0 + 1);
        if (!(vin_oom & 1)) {
            V_CHECK("C08.appended-at-the-tail-of-the-recipients-pipe", g_write_calls == 1 && g_write_fd == 8 && g_pipe_len == vin_pipe_len + (g_pipe_full ? 0 : 1));
            mem_header_t *sh = (mem_header_t *)((uint8_t *)sender - sizeof(mem_header_t) - ((uint8_t *)sender)[-1]);
            if (!g_pipe_full) {
                ps_priv_t *copy = g_pipe_last;
                V_CHECK("C02.copy-carries-sender-topic-payload-flags", copy != NULL && copy != &callers_msg && copy->msg.sender == sender && copy->msg.topic == callers_msg.msg.topic
                                                                        && copy->msg.data == (void *)&payload && copy->flags == callers_msg.flags && !copy->msg.system);
                V_CHECK("C02.copy-records-the-matched-subscription", copy->sub == ((vin_has_topic && vin_has_key) ? &sub : NULL));
                V_CHECK("C04.in-flight-message-keeps-its-sender-alive", sh->refs == 2 && g_free_calls == f0);
                /* when the recipient is done the copy goes away, the sender reference with it; the payload is released iff auto-free was asked */
                m_mem_unref(copy);
                V_CHECK("C02.payload-released-iff-autofree", sh->refs == 1 && g_free_calls == f0 + 1 + (vin_autofree ? 1 : 0));
            } else {
                /* pipe full: the COPY is released (exactly once), the sender reference it held is dropped, the caller's message object is left alone */
                V_CHECK("C04.undeliverable-copy-released-not-the-callers-message", sh->refs == 1 && g_free_calls >= f0 + 1 && callers_msg.msg.sender == sender);
            }
        } else V_CHECK("C02.failed-copy-means-no-delivery", g_write_calls == 0 && g_free_calls == f0);
    }
    V_COVER("tell-direct-running", !vin_has_topic && eligible && !g_pipe_full && !(vin_oom & 1)); V_COVER("tell-publish-matched", vin_has_topic && vin_has_key && g_write_calls == 1);
    V_COVER("tell-direct-with-topic", vin_has_topic && !vin_has_key && g_write_calls == 1); V_COVER("tell-pipe-full", eligible && g_pipe_full && !(vin_oom & 1)); V_COVER("tell-not-eligible-state", vin_state == M_MOD_IDLE);
    V_CANARY();
}
/* one send, two eligible recipients, then both are done with it: the payload of an auto-free send is released exactly once, after the
 * last recipient; a payload sent without the flag is never released by the library.  Also: nobody eligible => released at once. */
void h_send_two_real(void) {
    v_inputs_init(); v_base_init();
    static m_mod_t r1, r2; static int payload_obj;
    bool autofree = vin_autofree & 1;
#ifdef V_KF_C02_AUTOFREE_SHARED_PAYLOAD    /* known finding: exclude auto-free sends that do not reach exactly one recipient */
    V_ASSUME(!(autofree && ((vin_state & 3) != 1)));
#endif
    int *payloadp = autofree ? malloc(sizeof(int)) : &payload_obj; V_ASSUME(payloadp != NULL);
    m_mod_t *sender = m_mem_new(sizeof(m_mod_t), NULL); V_ASSUME(sender != NULL);
    ps_priv_t callers_msg = { { false, sender, NULL, payloadp }, autofree ? M_PS_AUTOFREE : 0, NULL };
    /* bit 0 / bit 1 of vin_state: is recipient 1 / 2 eligible (RUNNING) or not (IDLE) */
    r1.state = (vin_state & 1) ? M_MOD_RUNNING : M_MOD_IDLE; r2.state = (vin_state & 2) ? M_MOD_RUNNING : M_MOD_IDLE; r1.name = r2.name = "r";
    r1.pubsub_fd[1] = 8; r2.pubsub_fd[1] = 8; g_pipe_full = false; g_pipe_len = 0; g_write_calls = 0;
    size_t f0 = g_free_calls;
    void *c1 = NULL, *c2 = NULL;
    tell_if(&callers_msg, NULL, &r1); if (g_write_calls == 1) c1 = g_pipe_last;
    size_t w = g_write_calls;
    tell_if(&callers_msg, NULL, &r2); if (g_write_calls == w + 1) c2 = g_pipe_last;
    size_t nrecip = (c1 != NULL) + (c2 != NULL);
    V_CHECK("C02.exactly-the-eligible-recipients", nrecip == (size_t)((vin_state & 1) + ((vin_state >> 1) & 1)));
    if (c1) m_mem_unref(c1);
    if (c2) m_mem_unref(c2);
    size_t payload_frees = g_free_calls - f0 - nrecip;        /* every copy is released once; what remains are payload releases */
    V_CHECK("C02.autofree-payload-released-exactly-once-after-last-recipient-or-at-once-if-nobody", payload_frees == (autofree ? 1 : 0));
    V_COVER("two-recipients-autofree", nrecip == 2 && autofree); V_COVER("nobody-eligible-autofree", nrecip == 0 && autofree); V_COVER("one-recipient", nrecip == 1);
    V_CANARY();
}
/* m_mod_ps_poisonpill() end to end on the real ps.c: an accepted pill is a system message queued at the tail of its recipient's pipe (so it is
 * handled after everything sent earlier), exactly one copy, for the one recipient */
static m_ctx_t g_ctxobj; static m_ctx_t *g_mctx;
m_ctx_t *m_ctx(void) { return g_mctx; }
void fetch_ms(uint64_t *val, uint64_t *ctr) { *val = 1; if (ctr) (*ctr)++; }
static bool v_same_str(const char *a, const char *b) { for (size_t i = 0; i < 40; i++) { if (a[i] != b[i]) return false; if (!a[i]) return true; } return false; }
/* a pill never acts on its recipient directly: it is only ever queued (so that it takes effect behind everything sent earlier) -- also when a module pills itself */
static size_t g_stop_calls;
int stop(m_mod_t *mod, bool stopping) { (void)mod; (void)stopping; g_stop_calls++; return 0; }
void h_pill_real(void) {
    v_inputs_init(); v_base_init();
    V_ASSUME(v_state_valid(vin_state) && vin_pipe_len < ((uint64_t)1 << 60));
    static m_mod_t recipient_obj;
    m_mod_t *sender = m_mem_new(sizeof(m_mod_t), NULL); V_ASSUME(sender != NULL);
    bool self = vin_has_key & 1;                       /* the module pills itself */
    if (self) V_ASSUME(vin_state == M_MOD_RUNNING);
#define recipient (*(self ? sender : &recipient_obj))
    g_stop_calls = 0;
    g_mctx = &g_ctxobj; sender->ctx = &g_ctxobj; sender->state = M_MOD_RUNNING; sender->flags = 0; sender->tb.tokens = 5; sender->stats.sent_msgs = 0; sender->stats.action_ctr = 0;
    recipient.ctx = &g_ctxobj; recipient.state = (m_mod_states)vin_state; recipient.name = "r"; recipient.pubsub_fd[0] = 7; recipient.pubsub_fd[1] = 8;
    g_pipe_full = false; g_pipe_len = vin_pipe_len; g_write_calls = 0; g_pipe_last = NULL;
    sender->pubsub_fd[0] = 7; sender->pubsub_fd[1] = 8; sender->name = "s";
    int r = m_mod_ps_poisonpill(sender, &recipient);
    V_CHECK("C08.pill-is-only-ever-queued-never-applied-ahead-of-earlier-messages", g_stop_calls == 0);
    if (vin_state != M_MOD_RUNNING) V_CHECK("C08.pill-for-a-module-that-is-not-running-is-refused", r == -EINVAL && g_write_calls == 0);
    else {
        ps_priv_t *copy = g_pipe_last;
        V_CHECK("C08.accepted-pill-is-queued-at-the-tail-of-its-recipients-pipe", r == 0 && g_write_calls == 1 && g_write_fd == 8 && g_pipe_len == vin_pipe_len + 1 && copy != NULL
                && copy->msg.system && copy->msg.topic != NULL && v_same_str(copy->msg.topic, M_PS_MOD_POISONPILL) && copy->msg.sender == sender && copy->sub == NULL);
    }
    V_COVER("pill-accepted", r == 0 && !self); V_COVER("pill-refused", r != 0); V_COVER("pill-to-itself", r == 0 && self);
#undef recipient
    V_CANARY();
}
#if defined(V_NATIVE) || defined(V_SUBREAL)     /* (kept out of the other units' builds: the extra void(void*) stub would become a destructor candidate for CBMC in every harness of this file) */
/* ---- m_mod_ps_subscribe() on the real ps.c + real mem.c (C09, C04): the module's subscription table is keyed by the topic string of the subscription stored there.
 * The table is a one-entry recording stub with the semantics the map units prove for M_MAP_VAL_ALLOW_UPDATE tables (new key stored as given; an update KEEPS the stored
 * key and destroys the value it replaces; removal destroys the value).  Every pointer handed to the allocator's free is recorded, so "the key the table keeps was
 * released" is decided exactly. */
static struct { bool present; const char *key; void *val; } g_ent; static int g_tabobj;
static void *g_freed[6]; static size_t g_nfreed;
static void v_free_rec(void *p) { if (g_nfreed < 6) g_freed[g_nfreed] = p; g_nfreed++; v_free(p); }
static bool v_was_freed(const void *p) { for (size_t i = 0; i < 6; i++) if (i < g_nfreed && g_freed[i] == p) return true; return false; }
#ifndef V_SUBSCRIBE_STUBS_OFF
m_map_t *m_map_new(m_map_flags flags, m_map_dtor fn) { (void)fn; V_CHECK("C09.subscription-table-allows-in-place-update", flags == M_MAP_VAL_ALLOW_UPDATE); g_ent.present = false; return (m_map_t *)&g_tabobj; }
void *m_map_get(const m_map_t *m, const char *key) { (void)m; (void)key; return g_ent.present ? g_ent.val : NULL; }
ssize_t m_map_len(const m_map_t *m) { return m == NULL ? -EINVAL : (g_ent.present ? 1 : 0); }
int m_map_free(m_map_t **m) { if (m == NULL || *m == NULL) return -EINVAL; if (g_ent.present) { g_ent.present = false; mem_dtor(g_ent.val); g_ent.key = NULL; g_ent.val = NULL; } *m = NULL; return 0; }
int m_map_put(m_map_t *m, const char *key, void *value) {
    if (m == NULL || key == NULL) return -EINVAL;
    if (g_ent.present) { void *old = g_ent.val; g_ent.val = value; mem_dtor(old); }      /* update: stored key kept, old value destroyed */
    else { g_ent.present = true; g_ent.key = key; g_ent.val = value; }
    return 0;
}
int m_map_remove(m_map_t *m, const char *key) { (void)m; (void)key; if (!g_ent.present) return -ENOENT; g_ent.present = false; mem_dtor(g_ent.val); g_ent.key = NULL; g_ent.val = NULL; return 0; }
void mem_dtor(void *src) { m_mem_unref(src); }
char *mem_strdup(const char *s) { char *n = memhook._malloc(2); if (n) { n[0] = s[0]; n[1] = 0; } return n; }
static size_t g_regcomp_calls, g_regfree_calls;      /* a compiled pattern owns libc memory until regfree() */
int v_regcomp(regex_t *preg, const char *regex, int cflags) { (void)preg; (void)regex; (void)cflags; g_regcomp_calls++; return 0; }
void v_regfree(regex_t *preg) { (void)preg; g_regfree_calls++; }
#endif
/* the compiled pattern is an opaque libc object: copying it (64 bytes with embedded pointers, from an object regcomp would have filled) made CBMC run out of memory;
 * in this unit memcpy is swapped for this stub (goto-instrument --replace-calls): the one copy the function makes is of exactly that object and is skipped */
void *v_memcpy_regex(void *dst, const void *src, size_t n) { (void)src; V_CHECK("C04.only-the-compiled-pattern-is-copied", n == sizeof(regex_t)); return dst; }
void h_subscribe_real(void) {
    v_inputs_init(); v_base_init(); memhook._free = v_free_rec; g_nfreed = 0; g_regcomp_calls = 0; g_regfree_calls = 0;
    static m_mod_t modobj; static char topic[2] = "t"; static int up1, up2;
    m_src_flags fo = (m_src_flags)vin_flags_old, fn = (m_src_flags)vin_flags_new;
    g_mctx = &g_ctxobj; modobj.ctx = &g_ctxobj; modobj.state = M_MOD_RUNNING; modobj.flags = 0; modobj.tb.tokens = 5; modobj.subscriptions = NULL; g_ent.present = false;
    V_ASSUME(!(fo & M_SRC_AUTOFREE) && !(fn & M_SRC_AUTOFREE));
    int r0 = 0;
    if (vin_autofree & 1) { r0 = m_mod_ps_subscribe(&modobj, topic, fo, &up1); V_ASSUME(r0 == 0); }      /* an earlier subscription to the same topic (any flags, possibly M_SRC_DUP) */
    size_t freed_before = g_nfreed;
    g_alloc_calls = 0; g_oom_mask = vin_pipe_len & 3;      /* the first and/or second allocation of the call under test may fail (subscription object, duplicated topic) */
    int r = m_mod_ps_subscribe(&modobj, topic, fn, &up2);
    bool oom = (vin_pipe_len & 3) != 0;
    unsigned prio = fn & 7u;
    /* subscribing (again) to a topic with a well-formed flag word succeeds, whatever was subscribed before */
    if ((prio == 0 || prio == 1 || prio == 2 || prio == 4) && !oom) V_CHECK("C09.subscribing-a-topic-again-succeeds", r == 0);
    /* every pattern the library compiled is either the one of the subscription that is stored, or was released: none is left behind -- also when the call fails
     * because the subscription object or the duplicated topic could not be allocated */
    V_CHECK("C04.every-compiled-pattern-is-owned-by-the-stored-subscription-or-released", g_regcomp_calls - g_regfree_calls == (g_ent.present ? 1u : 0u));
    if (r == 0) {
        ev_src_t *cur = g_ent.val;
        V_CHECK("C09.one-subscription-per-topic-carrying-the-latest-user-pointer", g_ent.present && cur != NULL && cur->userptr == (void *)&up2 && cur->mod == &modobj && cur->type == M_SRC_TYPE_PS);
        /* the key the table keeps, and the topic the stored subscription carries, are live memory: neither was handed to free() on the way */
        V_CHECK("C04.subscription-table-key-is-not-released-memory", !v_was_freed(g_ent.key) && !v_was_freed(cur->ps_src.topic));
        if ((vin_autofree & 1) && fo == fn) V_CHECK("C09.repeated-subscription-updated-in-place", g_nfreed == freed_before);
    }
    V_COVER("resubscribe-dup-with-other-flags", r == 0 && (vin_autofree & 1) && (fo & M_SRC_DUP) && fo != fn); V_COVER("subscribe-first", r == 0 && !(vin_autofree & 1));
    V_COVER("resubscribe-same-flags", r == 0 && (vin_autofree & 1) && fo == fn); V_COVER("subscribe-two-priorities-refused", r == -EINVAL);
    V_COVER("subscribe-object-allocation-fails", r != 0 && (vin_pipe_len & 1) && prio == 0); V_COVER("subscribe-topic-copy-allocation-fails", r != 0 && (vin_pipe_len & 3) == 2 && (fn & M_SRC_DUP) && prio == 0);
    V_CANARY();
}
#endif
#ifdef V_NATIVE
/* the native replay links the whole ps.c: the map functions behind publish/broadcast are not reached by these harnesses (a recipient is always given) */
m_map_itr_t *m_map_itr_new(const m_map_t *m) { (void)m; abort(); }
void *m_map_itr_get_data(const m_map_itr_t *i) { (void)i; abort(); }
int m_map_itr_next(m_map_itr_t **i) { (void)i; abort(); }
int m_map_iterate(const m_map_t *m, m_map_cb cb, void *up) { (void)m; (void)cb; (void)up; abort(); }
V_NATIVE_MAIN(V_H(h_tell_if_real), V_H(h_send_two_real), V_H(h_pill_real), V_H(h_subscribe_real))
#endif
