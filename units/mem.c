/* Proof unit: Lib/mem/mem.c -- property C10 (and C04 safety). Idiom A: full-domain, loop-free. */
#include "vbase.h"

/* ghost log of the destructor stub */
size_t g_dtor_calls;
void  *g_dtor_arg;
size_t g_dtor_refs_seen;        /* header.refs observed inside the destructor */
size_t g_dtor_free_calls_seen;  /* g_free_calls observed inside the destructor (release must come after) */
void  *g_nested;                /* a second block the destructor drops (nested blocks) */
size_t g_blk_size;              /* payload size of the block under test, for the validity check in the dtor */
void v_dtor(void *p);
bool   g_dtor_block_valid;      /* block was still a valid block inside the destructor */

#include "mem/mem.c"            /* the real translation unit, unmodified (-I$REPO/Lib) */
mem_header_t *g_blk;            /* ghost: header of the focus block */
uint8_t g_shift;                /* ghost: its padding */
mem_header_t g_dummy_hdr;       /* g_blk points here when the argument is NULL, so V_OLD(g_blk->...) is always evaluable */

#ifdef V_CBMC
#include "mem.contracts.h"
#else
#include "mem.native.h"         /* generated from mem.contracts.h by lib/gen_native.py */
#endif

void v_dtor(void *p) {
    g_dtor_calls++;
    g_dtor_arg = p;
    g_dtor_free_calls_seen = g_free_calls;
    /* "the destructor runs on the still-valid block" */
    g_dtor_block_valid = V_RW_OK(p, g_blk_size) && v_blk_rep(p);
    g_dtor_refs_seen = g_blk ? g_blk->refs : 0;
#ifdef V_NESTED
    if (g_nested) m_mem_unref(g_nested);  /* nested block: replaced by the contract under proof (induction on depth) */
#endif
}

/* ---- builder: a live block described by scalars ------------------------------------------------ */
static void *build_block(size_t size, uint8_t shift, size_t refs, bool with_dtor) {
    uint8_t *base = malloc(sizeof(mem_header_t) + shift + size);
    V_ASSUME(base != NULL);
    mem_header_t *h = (mem_header_t *)base; g_blk = h; g_shift = shift;
    h->refs = refs; h->size = size; h->dtor = with_dtor ? v_dtor : NULL;
    uint8_t *src = base + sizeof(mem_header_t) + shift;
    src[-1] = shift;
    return src;
}

#define H_INPUTS(X) X(uint64_t, size) X(uint8_t, shift) X(uint64_t, refs) X(uint8_t, with_dtor) X(uint8_t, null_arg) X(uint64_t, oom)
V_DEFINE_INPUTS(H_INPUTS)

static void common_init(void) {
    v_inputs_init();
    v_base_init();
    g_dtor_calls = 0; g_dtor_arg = NULL; g_nested = NULL; g_dtor_refs_seen = 0; g_dtor_free_calls_seen = 0; g_dtor_block_valid = false; g_blk = &g_dummy_hdr; g_shift = 0;
    g_blk_size = vin_size;
}
static void *input_block(void) {
    V_ASSUME(vin_size <= V_MEM_MAX && vin_shift >= 1 && vin_shift <= V_ALIGN && vin_refs >= 1);
    if (vin_null_arg) return NULL;
    return build_block(vin_size, vin_shift, vin_refs, vin_with_dtor);
}

void h_mem_new(void) {
    common_init();
    V_ASSUME(vin_size <= V_MEM_MAX);
    g_oom_mask = vin_oom & 1;
    void *p = VC(m_mem_new)(vin_size, vin_with_dtor ? v_dtor : NULL);
    V_COVER("new-ok-unaligned-size", p != NULL && vin_size % 16 == 5);
    V_COVER("new-ok-size0", p != NULL && vin_size == 0);
    V_COVER("new-oom", p == NULL);
    if (p) {   /* the block really is usable end to end and can be released through the public API */
        if (vin_size > 0) { ((uint8_t *)p)[0] = 1; ((uint8_t *)p)[vin_size - 1] = 2; }
    }
    V_CANARY();
}

void h_mem_ref(void) {
    common_init();
    void *p = input_block();
    V_ASSUME(vin_refs < SIZE_MAX);
    void *r = VC(m_mem_ref)(p);
    V_COVER("ref-null", p == NULL);
    V_COVER("ref-live", p != NULL && vin_refs == 7);
    (void)r;
    V_CANARY();
}

void h_mem_unref(void) {
    common_init();
    void *p = input_block();
    VC(m_mem_unref)(p);
    V_COVER("unref-null", p == NULL);
    V_COVER("unref-last-with-dtor", p != NULL && vin_refs == 1 && vin_with_dtor);
    V_COVER("unref-last-no-dtor", p != NULL && vin_refs == 1 && !vin_with_dtor);
    V_COVER("unref-not-last", p != NULL && vin_refs == 3);
    V_CANARY();
}

void h_mem_unrefp(void) {
    common_init();
    void *p = input_block();
    void *slot = p;
    VC(m_mem_unrefp)(vin_oom & 1 ? NULL : &slot);
    V_COVER("unrefp-null-slot", (vin_oom & 1));
    V_COVER("unrefp-live", !(vin_oom & 1) && p != NULL);
    V_CANARY();
}

void h_mem_size(void) {
    common_init();
    void *p = input_block();
    size_t s = VC(m_mem_size)(p);
    V_CHECK("C10.size-is-requested-size", s == (p ? vin_size : 0));
    V_COVER("size-live", p != NULL && vin_size == 1000);
    V_CANARY();
}

#ifdef V_NATIVE
V_NATIVE_MAIN(V_H(h_mem_new), V_H(h_mem_ref), V_H(h_mem_unref), V_H(h_mem_unrefp), V_H(h_mem_size))
#endif
