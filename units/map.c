/* Proof units: Lib/structs/map.c -- property C05 (and C04 safety).
 * mb.* : bounded stand-ins (idiom D): EVERY table of V_T slots satisfying the representation invariant map_inv (any
 *        contents, any hash function: the hash is the ghost array g_hash[], so every collision pattern, every cluster,
 *        clusters wrapping the table end are covered), universe of V_T+1 keys, every flag combination; real functions
 *        end to end, checked against the dictionary view.  hashmap_hash_string() is replaced by its contract
 *        "returns g_hash[key]" (the real hash function is verified separately in unit m.hash_deterministic).
 * m.*  : unbounded units (loop contracts through the M_VERIF_LOOP anchors), see map.contracts.h */
#define V_REAL_UTILS_MEM
#include "vbase.h"
/* Lib/utils/mem.c (mem_strdup + the definition of memhook) is included for real; its initialiser {malloc,calloc,free}
 * is redirected to the allocator stubs because taking the address of CBMC's calloc model crashes goto-instrument */
#define malloc v_malloc
#define calloc v_calloc
#define free v_free
#include "utils/mem.c"
#undef malloc
#undef calloc
#undef free

#ifndef V_T
#define V_T 4
#endif
#define V_U (V_T + 1)          /* key universe: ids 1..V_U */
size_t g_hash[V_U + 2];        /* ghost hash function */

size_t g_dtor_calls; void *g_dtor_arg;
static size_t g_dlog_n; static void *g_dlog[2 * V_T + 4];
void v_val_dtor(void *p) {
#ifndef V_F1   /* the per-call log is only used by the bounded units */
    if (g_dlog_n < 2 * V_T + 4) g_dlog[g_dlog_n] = p; g_dlog_n++;
#endif
    g_dtor_calls++; g_dtor_arg = p; }

/* strcmp on the 2-byte keys {id,0} used by the bounded units: exact for that key shape (difference of the first bytes);
 * CBMC's built-in strcmp model walks both strings through symbolic pointers and dominated the solver time */
#ifdef V_CBMC
#include <string.h>
static inline int v_strcmp2(const char *a, const char *b) {
    __CPROVER_assert(a != NULL && b != NULL && a[1] == 0 && b[1] == 0, "v_strcmp2: 2-byte keys only");
    return (int)(unsigned char)a[0] - (int)(unsigned char)b[0];
}
#define strcmp v_strcmp2
#endif
#include "structs/map.c"       /* the real translation unit, unmodified */
#undef strcmp

/* ghost hash: in the bounded units every call of the static hashmap_hash_string() is redirected to this function by
 * `goto-instrument --replace-calls hashmap_hash_string:v_ghost_hash` (the map code itself is untouched) */
size_t v_ghost_hash(const char *key) {
    V_CHECK("C05.hash-called-on-valid-key", key != NULL && key[1] == 0 && (unsigned char)key[0] >= 1 && (unsigned char)key[0] <= V_U);
    return g_hash[(unsigned char)key[0]];
}


#define V_VAL(id) ((void *)(uintptr_t)(0x1000 + 16 * (id)))
#define V_VID(p)  ((((uintptr_t)(p)) - 0x1000) / 16)
static char g_qkey[V_U + 2][2];        /* query keys: distinct objects, content {id, 0} */
static const char *g_skey[V_T * 2];    /* stored key pointers as built (for autofree accounting) */

#define B_INPUTS(X) X(uint64_t, slots) X(uint8_t, f_dup) X(uint8_t, f_autofree) X(uint8_t, f_update) X(uint8_t, has_dtor) \
    X(uint64_t, h1) X(uint64_t, h2) X(uint64_t, h3) X(uint64_t, h4) X(uint64_t, h5) X(uint64_t, h6) X(uint64_t, h7) X(uint64_t, h8) X(uint64_t, h9) \
    X(uint8_t, x) X(uint32_t, script) X(uint8_t, extra) X(uint64_t, oom)
V_DEFINE_INPUTS(B_INPUTS)

static bool g_live0[V_U + 2];          /* view before the operation: key id present? (value is V_VAL(id)) */
static size_t g_len0;

static unsigned slot_id(const map_elem *e) { return e->key ? (unsigned char)e->key[0] : 0; }

/* representation invariant of the open-addressing table (what every lookup relies on).  The key ids are read once
 * into an array; the quantified part then runs over small integers only (no pointer dereferences in the inner loops) */
static bool map_inv(const m_map_t *m, size_t T) {
    if (m->table_size != T || m->table == NULL) return false;
    unsigned ids[2 * V_T]; size_t live = 0;
    for (size_t s = 0; s < 2 * V_T; s++) {
        ids[s] = 0;
        if (s >= T) continue;
        const map_elem *e = &m->table[s];
        if (!e->key) { if (e->data != NULL) return false; continue; }
        unsigned id = slot_id(e);
        if (id < 1 || id > V_U || e->key[1] != 0 || e->data == NULL) return false;
        ids[s] = id; live++;
    }
    for (size_t s = 0; s < 2 * V_T; s++) {
        if (s >= T || !ids[s]) continue;
        for (size_t s2 = 0; s2 < 2 * V_T; s2++) if (s2 < s && ids[s2] == ids[s]) return false;          /* unique keys */
        size_t home = g_hash[ids[s]] & (T - 1);
        size_t d = (s - home) & (T - 1);
        if (d >= (T >> 1)) return false;                                        /* within probe length of its home slot */
        for (size_t j = 0; j < V_T; j++) if (j < d && !ids[(home + j) & (T - 1)]) return false;         /* no hole before it */
    }
    /* load factor: hashmap_put() doubles the table BEFORE inserting when table_size <= len + len/3, so a table of T slots never holds more than the largest n with
     * (n-1) + (n-1)/3 < T entries (3 of 4, 6 of 8); fuller tables are not reachable through the API (and the probe loops are not meant to cope with them) */
    if (live > 0 && (live - 1) + (live - 1) / 3 >= T) return false;
    return live == m->length;
}
static void *view_get(const m_map_t *m, unsigned id) {          /* dictionary view, by direct scan */
    for (size_t s = 0; s < 2 * V_T; s++) if (s < m->table_size && m->table[s].key && slot_id(&m->table[s]) == id) return m->table[s].data;
    return NULL;
}
static m_map_t *build_map(void) {
    v_base_init(); g_dlog_n = 0; g_dtor_calls = 0;
#define HM(v) ((size_t)((v) & (4 * V_T - 1)))   /* only the bits that select a slot in a table of T or 2T slots matter */
    g_hash[1] = HM(vin_h1); g_hash[2] = HM(vin_h2); g_hash[3] = HM(vin_h3); g_hash[4] = HM(vin_h4); g_hash[5] = HM(vin_h5);
#if V_T > 4
    g_hash[6] = HM(vin_h6); g_hash[7] = HM(vin_h7); g_hash[8] = HM(vin_h8); g_hash[9] = HM(vin_h9);
#endif
    for (unsigned i = 0; i < V_U + 2; i++) { g_qkey[i][0] = (char)i; g_qkey[i][1] = 0; }
    m_map_t *m = malloc(sizeof *m); V_ASSUME(m != NULL);
    m->table_size = V_T; m->dtor = vin_has_dtor ? v_val_dtor : NULL;
#ifdef V_KEYMODE   /* 0: caller-owned keys, 1: autofree, 2: dup (compile-time variant: decides whether stored keys are heap objects) */
    V_ASSUME(vin_f_dup == (V_KEYMODE == 2) && vin_f_autofree == (V_KEYMODE == 1));
    m->flags = (V_KEYMODE == 2 ? (M_MAP_KEY_DUP | M_MAP_KEY_AUTOFREE) : 0) | (V_KEYMODE == 1 ? M_MAP_KEY_AUTOFREE : 0) | (vin_f_update ? M_MAP_VAL_ALLOW_UPDATE : 0);
#else
    m->flags = (vin_f_dup ? (M_MAP_KEY_DUP | M_MAP_KEY_AUTOFREE) : 0) | (vin_f_autofree ? M_MAP_KEY_AUTOFREE : 0) | (vin_f_update ? M_MAP_VAL_ALLOW_UPDATE : 0);
#endif
    m->table = malloc(V_T * sizeof(map_elem)); V_ASSUME(m->table != NULL);
    size_t live = 0;
    for (size_t s = 0; s < V_T; s++) {
        unsigned id = (vin_slots >> (4 * s)) & 15;
        V_ASSUME(id <= V_U);
#ifdef V_OCC   /* one run per occupancy pattern (compile-time): which slots are live is concrete, contents stay symbolic */
        if (!((V_OCC >> s) & 1)) id = 0; else V_ASSUME(id != 0);
        if (!((V_OCC >> s) & 1)) {
#else
        if (id == 0) {
#endif
            m->table[s].key = NULL; m->table[s].data = NULL; g_skey[s] = NULL; continue; }
        char *k;
        if (m->flags & M_MAP_KEY_AUTOFREE) { k = malloc(2); V_ASSUME(k != NULL); } else { static char pool[V_T][2]; k = pool[s]; }
        k[0] = (char)id; k[1] = 0;
        m->table[s].key = k; m->table[s].data = V_VAL(id); g_skey[s] = k; live++;
    }
    m->length = live;
    V_ASSUME(map_inv(m, V_T));
#ifdef V_KF_C05_WRAPPED_CLUSTER   /* known finding C05-iter-wrap: exclude tables whose occupied slots wrap around the table end */
    V_ASSUME(!(m->table[V_T - 1].key != NULL && m->table[0].key != NULL));
#endif
    /* load factor as maintained by hashmap_put (a put that leaves len+len/3 >= table_size is followed by a rehash on the next put) */
    g_len0 = live;
    for (unsigned id = 0; id < V_U + 2; id++) g_live0[id] = view_get(m, id) != NULL;
    g_alloc_calls = 0; g_free_calls = 0; g_oom_mask = 0;
    return m;
}
/* after any operation: invariant + every key answers exactly as the expected view says */
static void check_view(m_map_t *m, const bool *live, void *const *val, const char *tag_inv, const char *tag_view) {
    size_t T = m->table_size;
    V_CHECK("C05.table-size-stays-power-of-two", T == V_T || T == 2 * V_T);
    bool inv = T == V_T ? map_inv(m, V_T) : map_inv(m, 2 * V_T);
    V_CHECK("C05.representation-invariant-preserved", inv);
    size_t n = 0;
    for (unsigned id = 1; id <= V_U; id++) {
        void *expect = live[id] ? val[id] : NULL;
        if (live[id]) n++;
        V_CHECK("C05.get-reflects-exactly-the-live-entries", m_map_get(m, g_qkey[id]) == expect);
    }
    V_CHECK("C05.len-exact", m_map_len(m) == (ssize_t)n);
    (void)tag_inv; (void)tag_view;
}
static void model_init(bool *live, void **val) { for (unsigned id = 0; id < V_U + 2; id++) { live[id] = g_live0[id]; val[id] = V_VAL(id); } }

void h_mb_lookup(void) {
    v_inputs_init(); m_map_t *m = build_map();
    bool live[V_U + 2]; void *val[V_U + 2]; model_init(live, val);
    check_view(m, live, val, "", "");
    for (unsigned id = 1; id <= V_U; id++) {
        V_CHECK("C05.view-exact", view_get(m, id) == (live[id] ? val[id] : NULL));
        V_CHECK("C05.contains-reflects-exactly-the-live-entries", m_map_contains(m, g_qkey[id]) == live[id]);
    }
    V_CHECK("C05.null-key-tolerated", m_map_get(m, NULL) == NULL && !m_map_contains(m, NULL));
    V_COVER("lookup-wrapped-cluster", m->table[V_T - 1].key && m->table[0].key && ((g_hash[slot_id(&m->table[0])] & (V_T - 1)) == V_T - 1));
    V_COVER("lookup-empty", g_len0 == 0); V_COVER("lookup-3", g_len0 == 3);
    V_CANARY();
}

/* rehash alone: every map_inv table -> map_inv table of twice the size with the same view, or -ENOMEM and unchanged */
void h_mb_rehash(void) {
    v_inputs_init(); m_map_t *m = build_map();
    bool live[V_U + 2]; void *val[V_U + 2]; model_init(live, val);
    map_elem *old_table = m->table;
    g_oom_mask = vin_oom & 1;
    int r = hashmap_rehash(m);
    g_oom_mask = 0;
    if (r == 0) {
        V_CHECK("C05.rehash-doubles-and-keeps-view", m->table_size == 2 * V_T && m->table != old_table && g_free_calls == 1 && g_free_arg == (void *)old_table);
        bool inv = map_inv(m, 2 * V_T);
        V_CHECK("C05.representation-invariant-preserved", inv);
    } else {
        V_CHECK("C05.rehash-failure-no-effect", r == -ENOMEM && m->table == old_table && m->table_size == V_T);
        bool inv = map_inv(m, V_T);
        V_CHECK("C05.representation-invariant-preserved", inv);
    }
    for (unsigned id = 1; id <= V_U; id++) V_CHECK("C05.view-exact", view_get(m, id) == (live[id] ? val[id] : NULL));
    V_CHECK("C05.no-dtor-on-rehash", g_dlog_n == 0 && m->length == g_len0);
    V_COVER("rehash-ok-3", r == 0 && g_len0 == 3); V_COVER("rehash-oom", r != 0);
    V_CANARY();
}
/* hashmap_entry_find as hashmap_put uses it (find_empty = true): the slot returned is exactly where the key may be
 * stored without breaking the invariant: the equal key if present, else the first empty slot of its probe path */
void h_mb_findslot(void) {
    v_inputs_init(); m_map_t *m = build_map();
    V_ASSUME(vin_x >= 1 && vin_x <= V_U);
    map_elem *e = hashmap_entry_find(m, g_qkey[vin_x], true);
    if (g_live0[vin_x]) V_CHECK("C05.find-returns-the-entry-with-the-key", e != NULL && e->key != NULL && slot_id(e) == vin_x);
    else if (e != NULL) {
        V_CHECK("C05.find-empty-returns-insertable-slot", e->key == NULL && e >= m->table && e < m->table + V_T);
        /* storing the key there keeps the invariant (hashmap_put() only does so below the load threshold; above it, it rehashes first) */
        if (m->table_size > g_len0 + g_len0 / 3) {
            e->key = g_qkey[vin_x]; e->data = V_VAL(vin_x); m->length++;
            bool inv = map_inv(m, V_T);
            V_CHECK("C05.representation-invariant-preserved", inv);
        }
    }
    V_COVER("findslot-hit", g_live0[vin_x]); V_COVER("findslot-empty", !g_live0[vin_x] && e != NULL); V_COVER("findslot-full-path", !g_live0[vin_x] && e == NULL);
    V_CANARY();
}

void h_mb_remove(void) {
    v_inputs_init(); m_map_t *m = build_map();
    V_ASSUME(vin_x >= 1 && vin_x <= V_U);
    bool live[V_U + 2]; void *val[V_U + 2]; model_init(live, val);
    bool existed = g_live0[vin_x];
    int r = m_map_remove(m, g_qkey[vin_x]);
    V_CHECK("C05.remove-deletes-exactly-the-named-entry", r == (g_len0 == 0 ? -EINVAL : (existed ? 0 : -ENOENT)));
    live[vin_x] = false;
    V_CHECK("C05.dtor-exactly-once-on-removed-value", g_dlog_n == ((existed && vin_has_dtor) ? 1 : 0) && (!(existed && vin_has_dtor) || g_dlog[0] == V_VAL(vin_x)));
    V_CHECK("C05.key-released-with-its-entry", g_free_calls == ((existed && (m->flags & M_MAP_KEY_AUTOFREE)) ? 1 : 0));
    check_view(m, live, val, "", "");
#ifndef V_OCC
    V_COVER("remove-head-of-cluster", existed && g_len0 == 3); V_COVER("remove-absent", !existed && g_len0 == 2);
    V_COVER("remove-wrapped", existed && m->table[0].key != NULL && g_live0[slot_id(&m->table[0])] && ((g_hash[slot_id(&m->table[0])] & (V_T - 1)) == V_T - 1));
#else
    V_COVER("remove-present", existed); V_COVER("remove-absent-key", !existed);
#endif
    V_CANARY();
}

/* iterator walk: at each entry keep / remove / replace; every entry live at the start is visited exactly once */
void h_mb_walk(void) {
    v_inputs_init(); m_map_t *m = build_map();
    bool live[V_U + 2]; void *val[V_U + 2]; model_init(live, val);
    unsigned visits[V_U + 2]; for (unsigned i = 0; i < V_U + 2; i++) visits[i] = 0;
    size_t removed = 0;
    m_map_itr_t *it = m_map_itr_new(m);
    V_CHECK("C05.itr-new-iff-nonempty", (it != NULL) == (g_len0 > 0));
    for (size_t step = 0; it != NULL && step < V_T; step++) {     /* at most 3T/4 live entries: one spare step exposes a double visit */
        const char *k = m_map_itr_get_key(it); void *d = m_map_itr_get_data(it);
        unsigned id = k ? (unsigned char)k[0] : 0;
        V_CHECK("C05.itr-yields-live-entries", k != NULL && id >= 1 && id <= V_U && live[id] && d == val[id]);
        if (id <= V_U) visits[id]++;
        unsigned act = (vin_script >> (2 * step)) & 3;
        if (act == 1) { V_CHECK("C05.itr-remove-ok", m_map_itr_remove(it) == 0); V_CHECK("C05.itr-remove-twice-refused", m_map_itr_remove(it) == -EINVAL);
                        if (id <= V_U) live[id] = false; removed++; }
        else if (act == 2) { V_CHECK("C05.itr-set-ok", m_map_itr_set_data(it, V_VAL(id + 16)) == 0); if (id <= V_U) val[id] = V_VAL(id + 16); }
        m_map_itr_next(&it);
    }
    V_CHECK("C05.itr-terminates", it == NULL);
    for (unsigned id = 1; id <= V_U; id++) V_CHECK("C05.iteration-visits-every-live-entry-exactly-once", visits[id] == (g_live0[id] ? 1 : 0));
    V_CHECK("C05.dtor-exactly-once-on-removed-value", g_dlog_n == (vin_has_dtor ? removed : 0));
    check_view(m, live, val, "", "");
    V_COVER("walk-remove-all", g_len0 == 3 && removed == 3); V_COVER("walk-keep", g_len0 == 2 && removed == 0);
    V_CANARY();
}

/* callback iteration, the callback may remove the entry it is called for */
static m_map_t *g_m; static unsigned g_visits[V_U + 2]; static uint32_t g_script; static size_t g_calls; static bool g_cb_ok; static size_t g_cb_removed;
static int v_iter_cb(void *up, const char *key, void *value) {
    unsigned id = key ? (unsigned char)key[0] : 0;
    if (up != (void *)&g_script || id < 1 || id > V_U || value != V_VAL(id)) g_cb_ok = false;
    if (id <= V_U) g_visits[id]++;
    unsigned act = (g_script >> (2 * g_calls)) & 3;      /* 0 keep, 1 remove current, 2 stop with 0, 3 stop with error */
    g_calls++;
    if (act == 1) { if (m_map_remove(g_m, g_qkey[id]) != 0) g_cb_ok = false; g_cb_removed++; return 0; }
    if (act == 2) return 1;
    if (act == 3) return -7;
    return 0;
}
void h_mb_iterate(void) {
    v_inputs_init(); m_map_t *m = build_map();
    bool live[V_U + 2]; void *val[V_U + 2]; model_init(live, val);
    g_m = m; g_script = vin_script; g_calls = 0; g_cb_ok = true; g_cb_removed = 0;
    for (unsigned i = 0; i < V_U + 2; i++) g_visits[i] = 0;
    int r = m_map_iterate(m, v_iter_cb, &g_script);
    bool stopped = false; int expect_r = 0;
    for (size_t c = 0; c < V_T + 1; c++) if (c < g_calls) { unsigned act = (vin_script >> (2 * c)) & 3; if (act >= 2) { stopped = true; expect_r = act == 3 ? -7 : 0; } }
    V_CHECK("C05.iterate-callback-arguments", g_cb_ok);
    if (g_len0 == 0) V_CHECK("C05.iterate-empty", r == -EINVAL && g_calls == 0);
    else V_CHECK("C05.iterate-result", r == expect_r);
    for (unsigned id = 1; id <= V_U; id++) {
        if (!stopped) V_CHECK("C05.iteration-visits-every-live-entry-exactly-once", g_visits[id] == (g_live0[id] ? 1 : 0));
        else V_CHECK("C05.iteration-visits-no-entry-twice", g_visits[id] <= (g_live0[id] ? 1 : 0));
        if (g_visits[id] && ((vin_script >> 0) | 1)) { /* entries removed by the callback are gone */ }
    }
    V_CHECK("C05.dtor-exactly-once-on-removed-value", g_dlog_n == (vin_has_dtor ? g_cb_removed : 0));
    V_CHECK("C05.len-exact", m_map_len(m) == (ssize_t)(g_len0 - g_cb_removed));
    bool inv = map_inv(m, V_T);
    V_CHECK("C05.representation-invariant-preserved", inv);
    V_COVER("iterate-remove-some", g_cb_removed == 2 && !stopped); V_COVER("iterate-stop", stopped && g_calls == 2);
    V_CANARY();
}

void h_mb_clear(void) {
    v_inputs_init(); m_map_t *m = build_map();
    int r = (vin_extra & 1) ? m_map_free(&m) : m_map_clear(m);
    size_t keyfrees = ((vin_f_dup || vin_f_autofree) ? g_len0 : 0);
    if (vin_extra & 1) V_CHECK("C05.free-releases-everything", r == 0 && m == NULL && g_free_calls == keyfrees + (g_len0 ? 1 : 0) + 2);
    else { V_CHECK("C05.clear-empties", r == 0 && m->length == 0 && g_free_calls == keyfrees + (g_len0 ? 1 : 0));
           for (size_t s = 0; s < V_T; s++) V_CHECK("C05.clear-empties", m->table[s].key == NULL && m->table[s].data == NULL); }
    V_CHECK("C05.dtor-exactly-once-per-cleared-value", g_dlog_n == (vin_has_dtor ? g_len0 : 0));
    bool seen[V_U + 2]; for (unsigned i = 0; i < V_U + 2; i++) seen[i] = false;
    for (size_t i = 0; i < V_T; i++) if (i < g_dlog_n) { size_t id = V_VID(g_dlog[i]);
        V_CHECK("C05.dtor-exactly-once-per-cleared-value", id >= 1 && id <= V_U && g_live0[id] && !seen[id]); if (id <= V_U) seen[id] = true; }
    V_COVER("clear-3-dtor", g_len0 == 3 && vin_has_dtor); V_COVER("clear-empty", g_len0 == 0);
    V_CANARY();
}


/* ===================================== unbounded modular units ====================================== */
m_map_t *g_m; map_elem *g_found1, *g_found2, *g_fd; map_elem g_dummy_entry; size_t g_find_calls, g_rehash_calls; int g_rehash_ret[2];
#ifdef V_CBMC
#include "map.contracts.h"
#endif
#define P_INPUTS(X) X(uint64_t, tsize) X(uint64_t, length) X(uint8_t, f_dup) X(uint8_t, f_update) X(uint8_t, has_dtor) X(uint8_t, f1) X(uint8_t, f2) \
                    X(uint8_t, r1) X(uint8_t, r2) X(uint8_t, kid) X(uint8_t, same_val) X(uint8_t, null_key) X(uint64_t, oom)
V_DEFINE_INPUTS_2(P_INPUTS)
static char g_pkey[2], g_stored_key[2];
/* an entry described by a 2-bit code: 0 none (NULL), 1 empty slot, 2 slot holding an equal key */
static map_elem *mk_entry(unsigned code) {
    if (code == 0) return NULL;
    map_elem *e = malloc(sizeof *e); V_ASSUME(e != NULL);
    if (code == 1) { e->key = NULL; e->data = NULL; } else { e->key = g_stored_key; e->data = V_VAL(3); }
    return e;
}
static void build_put_state(void) {
    v_inputs2_init(); v_base_init(); g_dtor_calls = 0; g_dlog_n = 0;
    V_ASSUME(vin_tsize >= 2 && vin_tsize <= ((uint64_t)1 << 40) && vin_length < ((uint64_t)1 << 60) && vin_f1 <= 2 && vin_f2 <= 2 && vin_kid >= 1 && vin_kid <= 127);
    g_m = malloc(sizeof *g_m); V_ASSUME(g_m != NULL);
    g_m->table_size = vin_tsize; g_m->length = vin_length; g_m->dtor = vin_has_dtor ? v_val_dtor : NULL;
    g_m->flags = (vin_f_dup ? (M_MAP_KEY_DUP | M_MAP_KEY_AUTOFREE) : 0) | (vin_f_update ? M_MAP_VAL_ALLOW_UPDATE : 0);
    g_m->table = V_INVALID_PTR(map_elem *);       /* the table itself is never touched by hashmap_put/m_map_put: only through the callees */
    g_pkey[0] = (char)vin_kid; g_pkey[1] = 0; g_stored_key[0] = (char)vin_kid; g_stored_key[1] = 0;
#ifdef V_F1   /* one run per (1st find result, 2nd find result) kind: keeps g_fd a concrete pointer */
    V_ASSUME(vin_f1 == V_F1 && vin_f2 == V_F2);
    g_found1 = mk_entry(V_F1); g_found2 = mk_entry(V_F2);
#else
    g_found1 = mk_entry(vin_f1); g_found2 = mk_entry(vin_f2);
#endif
    g_fd = g_found1 ? g_found1 : (g_found2 ? g_found2 : &g_dummy_entry);
    g_find_calls = 0; g_rehash_calls = 0;
    g_rehash_ret[0] = (vin_r1 & 1) ? -ENOMEM : 0; g_rehash_ret[1] = (vin_r2 & 1) ? -ENOMEM : 0;
}
void h_m_put(void) {
    build_put_state();
    int r = hashmap_put(g_m, vin_null_key ? NULL : g_pkey, vin_same_val ? V_VAL(3) : V_VAL(4));
#if V_F1 == 1
    V_COVER("put-new", r == 0);
#elif V_F1 == 2
    V_COVER("put-update-dtor", r == 0 && vin_has_dtor && !vin_same_val); V_COVER("put-eperm", r == -EPERM);
#elif V_F2 == 0
    V_COVER("put-no-slot", r == -ENOMEM && !(vin_r1 & 1) && !(vin_r2 & 1));
#else
    V_COVER("put-after-second-rehash", r == 0 && g_rehash_calls >= 1);
#endif
    V_COVER("put-enomem", r == -ENOMEM);
    V_CANARY();
}
/* m_map_put on top of the contract of hashmap_put: keys duplicated by the map are private copies, never leaked */
void h_m_mput(void) {
    build_put_state();
    g_oom_mask = vin_oom & 1;
    size_t a0 = g_alloc_calls, f0 = g_free_calls;
    const char *k_before = g_fd->key;
    int r = m_map_put(g_m, vin_null_key ? NULL : g_pkey, vin_same_val ? V_VAL(3) : V_VAL(4));
    bool stored_new = (r == 0 && k_before == NULL && g_fd != &g_dummy_entry);
    if (vin_f_dup && !vin_null_key) {
        V_CHECK("C05.one-key-copy-per-put", g_alloc_calls - a0 <= 1);
        if (stored_new) { V_CHECK("C05.key-copy-is-private", g_fd->key != g_pkey && g_fd->key != NULL);
                          /* (content is read through g_last_alloc: a pointer constrained only by an assumed equality has no
                           *  points-to information in CBMC's symbolic execution) */
                          V_CHECK("C05.key-copy-has-same-content", g_fd->key == (const char *)g_last_alloc && ((char *)g_last_alloc)[0] == g_pkey[0] && ((char *)g_last_alloc)[1] == 0);
                          V_CHECK("C05.stored-key-copy-not-released", g_free_calls == f0); }
        else V_CHECK("C05.duplicated-key-released-unless-stored", g_free_calls - f0 == ((g_alloc_calls - a0 == 1 && !(vin_oom & 1)) ? 1 : 0));
    } else {
        V_CHECK("C05.caller-key-stored-as-is", g_alloc_calls == a0 && g_free_calls == f0 && (!stored_new || g_fd->key == g_pkey));
    }
    V_CHECK("C05.put-rejects-null-arguments", !vin_null_key || r == -EINVAL);
#if V_F1 == 1
    V_COVER("mput-dup-new", vin_f_dup && stored_new);
#elif V_F1 == 2
    V_COVER("mput-dup-update", vin_f_dup && r == 0 && !stored_new); V_COVER("mput-dup-eperm", vin_f_dup && r == -EPERM);
#endif
    V_CANARY();
}

#ifdef V_NATIVE
V_NATIVE_MAIN(V_H(h_mb_lookup), V_H(h_mb_rehash), V_H(h_mb_findslot), V_H(h_mb_remove), V_H(h_mb_walk), V_H(h_mb_iterate), V_H(h_mb_clear))
#endif
