/* Real-code unit for the poison-pill branch of recv_events() (C08, C01): the REAL Lib/core/ctx.c, plain CBMC (no contract instrumentation: the contract-instrumented
 * version mis-read the message attached to the event, see DESIGN.md 9.2), one poll batch of <= V_KBATCH pub/sub messages of one module, a pill at every position.
 * Callees outside ctx.c are small recording stubs; the static push_evt() is swapped for a recording stub with goto-instrument --replace-calls. BOUNDED in the batch size. */
#include "vcore.h"
#include "core/ctx.c"             /* real */
#ifndef V_KBATCH
#define V_KBATCH 3
#endif
static m_ctx_t g_ctxobj; static m_mod_t g_modobj; static ev_src_t g_srcobj; static int g_nfds;
int poll_wait(poll_priv_t *priv, const int timeout) { (void)priv; (void)timeout; errno = 0; return g_nfds; }
ev_src_t *poll_recv(poll_priv_t *priv, const int idx) { (void)priv; (void)idx; return &g_srcobj; }
bool m_mod_is(const m_mod_t *mod, m_mod_states st) { return mod && (mod->state & st); }
void fetch_ms(uint64_t *val, uint64_t *ctr) { *val = 1; if (ctr) (*ctr)++; }
static evt_priv_t g_evts[V_KBATCH + 1]; static size_t g_newevt;
evt_priv_t *new_evt(ev_src_t *src) { evt_priv_t *e = &g_evts[g_newevt < V_KBATCH ? g_newevt : V_KBATCH]; g_newevt++; e->src = src; e->evt.type = src->type; e->evt.fd_evt = NULL; return e; }
static m_evt_ps_t g_msgs[V_KBATCH + 1]; static char g_pilltopic[] = M_PS_MOD_POISONPILL; static char g_usertopic[] = "LIBMODULE_MOD_POISONPILx";
static size_t g_process_calls;
static ev_src_t *g_proc_ret;      /* what the process callback returns: the source itself, or (pub/sub) the subscription the message was matched with */
static ev_src_t *v_process(ev_src_t *this, m_ctx_t *c, int idx, evt_priv_t *evt) { (void)c; g_process_calls++; evt->evt.ps_evt = &g_msgs[(idx >= 0 && idx < V_KBATCH) ? idx : V_KBATCH]; return g_proc_ret ? g_proc_ret : this; }
static size_t g_unref_calls; static void *g_unref_last;
void *m_mem_unref(void *p) { g_unref_calls++; g_unref_last = p; return NULL; }
static size_t g_iter_calls;
int m_map_iterate(const m_map_t *m, m_map_cb cb, void *up) { (void)m; (void)cb; (void)up; g_iter_calls++; return 0; }
int v_strcmp(const char *a, const char *b) { for (size_t i = 0; i < 32; i++) { if (a[i] != b[i]) return (unsigned char)a[i] < (unsigned char)b[i] ? -1 : 1; if (!a[i]) return 0; } return 0; }
char *v_strerror(int e) { static char s[2]; (void)e; return s; }
/* push_evt() of ctx.c is replaced by this recorder (its own contract: unit ctx.push_evt) */
static size_t g_push_n; static void *g_pushed[V_KBATCH + 1];
void v_push(m_mod_t *mod, evt_priv_t *evt) {
    V_CHECK("C01.handler-only-for-running-module", mod == &g_modobj && mod->state == M_MOD_RUNNING);
    g_pushed[g_push_n < V_KBATCH ? g_push_n : V_KBATCH] = evt; g_push_n++;
}
static size_t g_stop_calls, g_stop_at_push;
int stop(m_mod_t *mod, bool stopping) { V_CHECK("C08.pill-stops-exactly-its-recipient", mod == &g_modobj && stopping); g_stop_calls++; g_stop_at_push = g_push_n; mod->state = M_MOD_STOPPED; return 0; }

static size_t g_maprm_calls, g_bstrm_calls; static const void *g_maprm_map, *g_maprm_key, *g_bstrm_set, *g_bstrm_data;
int m_map_remove(m_map_t *m, const char *key) { g_maprm_calls++; g_maprm_map = m; g_maprm_key = key; return 0; }
int m_bst_remove(m_bst_t *l, void *data) { g_bstrm_calls++; g_bstrm_set = l; g_bstrm_data = data; return 0; }
#define H_INPUTS(X) X(uint8_t, n) X(int8_t, pill) X(uint8_t, topics) X(uint8_t, kind)
V_DEFINE_INPUTS(H_INPUTS)
void h_recv_pill_real(void) {
    v_inputs_init(); v_base_init();
    V_ASSUME(vin_n <= V_KBATCH && vin_pill >= -1 && vin_pill < V_KBATCH);
    g_nfds = vin_n;
    g_modobj.ctx = &g_ctxobj; g_modobj.state = M_MOD_RUNNING; g_modobj.name = "m";
    g_srcobj.mod = &g_modobj; g_srcobj.type = M_SRC_TYPE_PS; g_srcobj.flags = M_SRC_PRIO_HIGH | M_SRC_INTERNAL; g_srcobj.process = v_process;
    /* message i: the pill at position vin_pill; otherwise a user message without topic, or with a topic that differs from the reserved one only in its last character */
    for (size_t i = 0; i < V_KBATCH; i++) { g_msgs[i].system = ((int)i == vin_pill); g_msgs[i].topic = ((int)i == vin_pill) ? g_pilltopic : (((vin_topics >> i) & 1) ? g_usertopic : NULL); }
    g_newevt = 0; g_push_n = 0; g_stop_calls = 0; g_unref_calls = 0; g_process_calls = 0; g_iter_calls = 0; g_ctxobj.stats.recv_msgs = 5; g_proc_ret = NULL;
    int r = recv_events(&g_ctxobj, -1);
    bool has_pill = vin_pill >= 0 && vin_pill < (int)vin_n;
    size_t before = has_pill ? (size_t)vin_pill : vin_n;
    /* exactly the messages queued before the pill are handed over, in pipe order */
    V_CHECK("C08.messages-before-the-pill-delivered-in-order", g_push_n == before);
    for (size_t i = 0; i < V_KBATCH; i++) if (i < before) V_CHECK("C08.messages-before-the-pill-delivered-in-order", g_pushed[i] == (void *)&g_evts[i] && g_evts[i].evt.ps_evt == &g_msgs[i]);
    if (has_pill) {
        V_CHECK("C08.pill-stops-its-recipient-once-after-everything-sent-earlier", g_stop_calls == 1 && g_stop_at_push == before && g_modobj.state == M_MOD_STOPPED);
        /* the pill itself is not handed to the handler: its event is released; nothing queued behind the pill is even read */
        V_CHECK("C08.nothing-after-the-pill-is-delivered", g_process_calls == before + 1 && g_newevt == before + 1 && g_unref_calls == 1 && g_unref_last == (void *)&g_evts[before]);
    } else {
        V_CHECK("C08.no-pill-nobody-stopped", g_stop_calls == 0 && g_modobj.state == M_MOD_RUNNING && g_unref_calls == 0 && r == (int)vin_n);
    }
    V_COVER("pill-second-of-three", vin_n == 3 && vin_pill == 1); V_COVER("pill-last", vin_n == 2 && vin_pill == 1); V_COVER("no-pill-three-topics", vin_n == 3 && vin_pill == -1 && (vin_topics & 7) == 7);
    V_COVER("pill-beyond-batch", vin_pill == 2 && vin_n == 1);
    V_CANARY();
}
/* one-shot sources: after its event was consumed the source is taken out of its module's registry under the key it was REGISTERED with (a subscription: its
 * registration topic/pattern, which need not equal the topic of the message that matched it; any other kind: the source itself), exactly once per event; the event is still delivered */
void h_recv_oneshot_real(void) {
    v_inputs_init(); v_base_init();
    V_ASSUME(vin_n <= 2 && vin_kind <= 2);
    static ev_src_t subobj; static char pattern[] = "^job/.*"; static char msgtopic[] = "job/1"; static int subs_obj, tmrs_obj;
    g_nfds = vin_n;
    g_modobj.ctx = &g_ctxobj; g_modobj.state = M_MOD_RUNNING; g_modobj.name = "m"; g_modobj.subscriptions = (m_map_t *)&subs_obj; g_modobj.srcs[M_SRC_TYPE_TMR] = (m_bst_t *)&tmrs_obj;
    g_srcobj.mod = &g_modobj; g_srcobj.process = v_process;
    if (vin_kind == 0) { g_srcobj.type = M_SRC_TYPE_PS; g_srcobj.flags = M_SRC_PRIO_HIGH | M_SRC_INTERNAL; subobj.type = M_SRC_TYPE_PS; subobj.flags = M_SRC_ONESHOT | M_SRC_PRIO_NORM; subobj.mod = &g_modobj;
                         subobj.ps_src.topic = pattern; g_proc_ret = &subobj; }
    else { g_srcobj.type = M_SRC_TYPE_TMR; g_srcobj.flags = (vin_kind == 1 ? M_SRC_ONESHOT : 0) | M_SRC_PRIO_NORM; g_proc_ret = NULL; }
    for (size_t i = 0; i < V_KBATCH; i++) { g_msgs[i].system = false; g_msgs[i].topic = msgtopic; }
    g_newevt = 0; g_push_n = 0; g_stop_calls = 0; g_unref_calls = 0; g_process_calls = 0; g_maprm_calls = 0; g_bstrm_calls = 0; g_ctxobj.stats.recv_msgs = 5;
    int r = recv_events(&g_ctxobj, -1);
    V_CHECK("C03.event-of-a-one-shot-source-is-still-delivered", r == (int)vin_n && g_push_n == vin_n && g_stop_calls == 0);
    if (vin_kind == 0) V_CHECK("C03.one-shot-subscription-removed-under-its-registration-key", g_maprm_calls == vin_n && g_bstrm_calls == 0
                               && (vin_n == 0 || (g_maprm_map == (const void *)&subs_obj && g_maprm_key == (const void *)pattern)));
    if (vin_kind == 1) V_CHECK("C03.one-shot-source-removed-from-the-set-of-its-kind", g_bstrm_calls == vin_n && g_maprm_calls == 0
                               && (vin_n == 0 || (g_bstrm_set == (const void *)&tmrs_obj && g_bstrm_data == (const void *)&g_srcobj)));
    if (vin_kind == 2) V_CHECK("C03.other-sources-stay-registered", g_bstrm_calls == 0 && g_maprm_calls == 0);
    V_COVER("oneshot-subscription", vin_kind == 0 && vin_n == 1); V_COVER("oneshot-timer", vin_kind == 1 && vin_n == 2); V_COVER("not-oneshot", vin_kind == 2 && vin_n == 1);
    V_CANARY();
}
#ifdef V_NATIVE
V_NATIVE_MAIN(V_H(h_recv_pill_real))
#endif
