/* Real-code unit for the poison-pill branch of recv_events() (C08, C01): the REAL Lib/core/ctx.c, plain CBMC (no contract instrumentation: the contract-instrumented
 * version mis-read the message attached to the event, see DESIGN.md 9.2), one poll batch of <= V_KBATCH pub/sub messages of one module, a pill at every position.
 * Callees outside ctx.c are small recording stubs; the static push_evt() is swapped for a recording stub with goto-instrument --replace-calls. BOUNDED in the batch size. */
#include "vcore.h"
#include "core/ctx.c"             /* real */
#ifndef V_KBATCH
#define V_KBATCH 3
#endif
static m_ctx_t g_ctxobj; static m_mod_t g_modobj; static ev_src_t g_srcobj; static int g_nfds;
int poll_wait(poll_priv_t *priv, const int timeout) { (void)priv; (void)timeout; errno = 0; return g_nfds; }
ev_src_t *poll_recv(poll_priv_t *priv, const int idx) { (void)priv; (void)idx; return &g_srcobj; }
bool m_mod_is(const m_mod_t *mod, m_mod_states st) { return mod && (mod->state & st); }
void fetch_ms(uint64_t *val, uint64_t *ctr) { *val = 1; if (ctr) (*ctr)++; }
static evt_priv_t g_evts[V_KBATCH + 1]; static size_t g_newevt;
evt_priv_t *new_evt(ev_src_t *src) { evt_priv_t *e = &g_evts[g_newevt < V_KBATCH ? g_newevt : V_KBATCH]; g_newevt++; e->src = src; e->evt.type = src->type; e->evt.fd_evt = NULL; return e; }
static m_evt_ps_t g_msgs[V_KBATCH + 1]; static char g_pilltopic[] = M_PS_MOD_POISONPILL; static char g_usertopic[] = "LIBMODULE_MOD_POISONPILx";
static size_t g_process_calls;
static ev_src_t *v_process(ev_src_t *this, m_ctx_t *c, int idx, evt_priv_t *evt) { (void)c; g_process_calls++; evt->evt.ps_evt = &g_msgs[(idx >= 0 && idx < V_KBATCH) ? idx : V_KBATCH]; return this; }
static size_t g_unref_calls; static void *g_unref_last;
void *m_mem_unref(void *p) { g_unref_calls++; g_unref_last = p; return NULL; }
static size_t g_iter_calls;
int m_map_iterate(const m_map_t *m, m_map_cb cb, void *up) { (void)m; (void)cb; (void)up; g_iter_calls++; return 0; }
int v_strcmp(const char *a, const char *b) { for (size_t i = 0; i < 32; i++) { if (a[i] != b[i]) return (unsigned char)a[i] < (unsigned char)b[i] ? -1 : 1; if (!a[i]) return 0; } return 0; }
char *v_strerror(int e) { static char s[2]; (void)e; return s; }
/* push_evt() of ctx.c is replaced by this recorder (its own contract: unit ctx.push_evt) */
static size_t g_push_n; static void *g_pushed[V_KBATCH + 1];
void v_push(m_mod_t *mod, evt_priv_t *evt) {
    V_CHECK("C01.handler-only-for-running-module", mod == &g_modobj && mod->state == M_MOD_RUNNING);
    g_pushed[g_push_n < V_KBATCH ? g_push_n : V_KBATCH] = evt; g_push_n++;
}
static size_t g_stop_calls, g_stop_at_push;
int stop(m_mod_t *mod, bool stopping) { V_CHECK("C08.pill-stops-exactly-its-recipient", mod == &g_modobj && stopping); g_stop_calls++; g_stop_at_push = g_push_n; mod->state = M_MOD_STOPPED; return 0; }

#define H_INPUTS(X) X(uint8_t, n) X(int8_t, pill) X(uint8_t, topics)
V_DEFINE_INPUTS(H_INPUTS)
void h_recv_pill_real(void) {
    v_inputs_init(); v_base_init();
    V_ASSUME(vin_n <= V_KBATCH && vin_pill >= -1 && vin_pill < V_KBATCH);
    g_nfds = vin_n;
    g_modobj.ctx = &g_ctxobj; g_modobj.state = M_MOD_RUNNING; g_modobj.name = "m";
    g_srcobj.mod = &g_modobj; g_srcobj.type = M_SRC_TYPE_PS; g_srcobj.flags = M_SRC_PRIO_HIGH | M_SRC_INTERNAL; g_srcobj.process = v_process;
    /* message i: the pill at position vin_pill; otherwise a user message without topic, or with a topic that differs from the reserved one only in its last character */
    for (size_t i = 0; i < V_KBATCH; i++) { g_msgs[i].system = ((int)i == vin_pill); g_msgs[i].topic = ((int)i == vin_pill) ? g_pilltopic : (((vin_topics >> i) & 1) ? g_usertopic : NULL); }
    g_newevt = 0; g_push_n = 0; g_stop_calls = 0; g_unref_calls = 0; g_process_calls = 0; g_iter_calls = 0; g_ctxobj.stats.recv_msgs = 5;
    int r = recv_events(&g_ctxobj, -1);
    bool has_pill = vin_pill >= 0 && vin_pill < (int)vin_n;
    size_t before = has_pill ? (size_t)vin_pill : vin_n;
    /* exactly the messages queued before the pill are handed over, in pipe order */
    V_CHECK("C08.messages-before-the-pill-delivered-in-order", g_push_n == before);
    for (size_t i = 0; i < V_KBATCH; i++) if (i < before) V_CHECK("C08.messages-before-the-pill-delivered-in-order", g_pushed[i] == (void *)&g_evts[i] && g_evts[i].evt.ps_evt == &g_msgs[i]);
    if (has_pill) {
        V_CHECK("C08.pill-stops-its-recipient-once-after-everything-sent-earlier", g_stop_calls == 1 && g_stop_at_push == before && g_modobj.state == M_MOD_STOPPED);
        /* the pill itself is not handed to the handler: its event is released; nothing queued behind the pill is even read */
        V_CHECK("C08.nothing-after-the-pill-is-delivered", g_process_calls == before + 1 && g_newevt == before + 1 && g_unref_calls == 1 && g_unref_last == (void *)&g_evts[before]);
    } else {
        V_CHECK("C08.no-pill-nobody-stopped", g_stop_calls == 0 && g_modobj.state == M_MOD_RUNNING && g_unref_calls == 0 && r == (int)vin_n);
    }
    V_COVER("pill-second-of-three", vin_n == 3 && vin_pill == 1); V_COVER("pill-last", vin_n == 2 && vin_pill == 1); V_COVER("no-pill-three-topics", vin_n == 3 && vin_pill == -1 && (vin_topics & 7) == 7);
    V_COVER("pill-beyond-batch", vin_pill == 2 && vin_n == 1);
    V_CANARY();
}
#ifdef V_NATIVE
V_NATIVE_MAIN(V_H(h_recv_pill_real))
#endif
