/* Proof unit: the seven per-kind source comparators of Lib/core/src.c -- property C09 (idiom A, full key domain).
 * Comparators are called by the ordered set with (candidate, stored element); both are sources (ev_src_t): the candidate
 * is the new source on registration and a key wrapped by fill_src_key() on removal (checked in the same unit). */
#include "vcore.h"
#include "core/src.c"      /* the real translation unit, unmodified */

#define H_INPUTS(X) X(int32_t, a) X(int32_t, b) X(int32_t, c) X(uint64_t, ua) X(uint64_t, ub) X(uint64_t, uc) \
                    X(uint64_t, da) X(uint64_t, db) X(uint64_t, dc) X(uint8_t, kind) X(uint32_t, wa) X(uint32_t, wb) X(uint32_t, wc) \
                    X(int32_t, ja) X(int32_t, jb) X(int32_t, jc) X(char, c0) X(char, c1) X(char, c2) X(char, c3)
V_DEFINE_INPUTS(H_INPUTS)
static int sgn(long long x) { return (x > 0) - (x < 0); }
static ev_src_t A, B, C;
static double dbl(uint64_t bits) { double d; memcpy(&d, &bits, sizeof d); return d; }

/* sign of cmp == sign of the mathematical comparison of the keys, for ALL key values; antisymmetry follows */
#define CMP_HARNESS(name, cmpfn, SET, KEYCMP) \
void h_cmp_##name(void) { \
    v_inputs_init(); v_base_init(); \
    SET(A, vin_a, vin_ua, vin_da, vin_wa, vin_ja); SET(B, vin_b, vin_ub, vin_db, vin_wb, vin_jb); SET(C, vin_c, vin_uc, vin_dc, vin_wc, vin_jc); \
    int ab = cmpfn(&A, &B), ba = cmpfn(&B, &A), bc = cmpfn(&B, &C), ac = cmpfn(&A, &C); \
    V_CHECK("C09.comparator-sign-is-key-order." #name, sgn(ab) == (KEYCMP(A, B))); \
    V_CHECK("C09.comparator-antisymmetric." #name, sgn(ab) == -sgn(ba)); \
    V_CHECK("C09.comparator-transitive." #name, !(ab <= 0 && bc <= 0) || ac <= 0); \
    V_CHECK("C09.comparator-zero-iff-same-key." #name, (ab == 0) == ((KEYCMP(A, B)) == 0)); \
    V_COVER(#name "-less", ab < 0); V_COVER(#name "-equal", ab == 0); V_COVER(#name "-greater", ab > 0); \
    V_CANARY(); }

#define M3(x, y) (((x) > (y)) - ((x) < (y)))
/* SET(S, i:int32 (private fd), u:uint64, d:double bits, w:uint32, j:int32) */
#define SET_FD(S, i, u, d, w, j)   (S).fd_src.fd = (i)
#define KEY_FD(X, Y)         M3((X).fd_src.fd, (Y).fd_src.fd)
#define SET_TMR(S, i, u, d, w, j)  do { (S).tmr_src.f.fd = (i); (S).tmr_src.its.clock_id = (j); (S).tmr_src.its.ns = (u); } while (0)
#define KEY_TMR(X, Y)        M3((X).tmr_src.its.ns, (Y).tmr_src.its.ns)
#define SET_SGN(S, i, u, d, w, j)  do { (S).sgn_src.f.fd = (i); (S).sgn_src.sgs.signo = (w); } while (0)
#define KEY_SGN(X, Y)        M3((X).sgn_src.sgs.signo, (Y).sgn_src.sgs.signo)
#define SET_PID(S, i, u, d, w, j)  do { (S).pid_src.f.fd = (i); (S).pid_src.pid.pid = (j); (S).pid_src.pid.events = (w); } while (0)
#define KEY_PID(X, Y)        M3((X).pid_src.pid.pid, (Y).pid_src.pid.pid)
#define SET_TASK(S, i, u, d, w, j) do { (S).task_src.f.fd = (i); (S).task_src.tid.tid = (j); } while (0)
#define KEY_TASK(X, Y)       M3((X).task_src.tid.tid, (Y).task_src.tid.tid)
/* thresholds: a pair (inactive_ms, activity_freq); registration guarantees finite, non-negative frequencies */
#define SET_THR(S, i, u, d, w, j)  do { (S).thresh_src.f.fd = (i); (S).thresh_src.thr.inactive_ms = (u); (S).thresh_src.thr.activity_freq = dbl(d); \
                                  V_ASSUME((S).thresh_src.thr.activity_freq >= 0.0 && (S).thresh_src.thr.activity_freq <= 1e300); } while (0)
#define KEY_THR(X, Y)        (M3((X).thresh_src.thr.inactive_ms, (Y).thresh_src.thr.inactive_ms) != 0 ? M3((X).thresh_src.thr.inactive_ms, (Y).thresh_src.thr.inactive_ms) \
                                                                                                      : M3((X).thresh_src.thr.activity_freq, (Y).thresh_src.thr.activity_freq))
CMP_HARNESS(fd, fdcmp, SET_FD, KEY_FD)
CMP_HARNESS(tmr, tmrcmp, SET_TMR, KEY_TMR)
CMP_HARNESS(sgn, sgncmp, SET_SGN, KEY_SGN)
CMP_HARNESS(pid, pidcmp, SET_PID, KEY_PID)
CMP_HARNESS(task, taskcmp, SET_TASK, KEY_TASK)
CMP_HARNESS(thresh, threshcmp, SET_THR, KEY_THR)

/* paths: keyed by the path string; strcmp is the stub (abstract key identity: sign of the first differing byte of 2-byte keys) */
static int ub(char c) { return ((int)c) & 0xff; }
int v_strcmp(const char *a, const char *b) { return ub(a[0]) != ub(b[0]) ? (ub(a[0]) < ub(b[0]) ? -1 : 1) : (ub(a[1]) < ub(b[1]) ? -1 : ub(a[1]) > ub(b[1])); }
void h_cmp_path(void) {
    v_inputs_init(); v_base_init();
    static char pa[3], pb[3];
    pa[0] = vin_c0; pa[1] = vin_c1; pa[2] = 0; pb[0] = vin_c2; pb[1] = vin_c3; pb[2] = 0;
    A.path_src.f.fd = vin_a; A.path_src.pt.path = pa; A.path_src.pt.events = vin_wa;
    B.path_src.f.fd = vin_b; B.path_src.pt.path = pb; B.path_src.pt.events = vin_wb;
    int ab = pathcmp(&A, &B), ba = pathcmp(&B, &A);
    V_CHECK("C09.comparator-sign-is-key-order.path", sgn(ab) == sgn(v_strcmp(pa, pb)));
    V_CHECK("C09.comparator-antisymmetric.path", sgn(ab) == -sgn(ba));
    V_COVER("path-equal", ab == 0); V_COVER("path-less", ab < 0);
    V_CANARY();
}

/* removal looks sources up by the user's key: the wrapped key compares equal to a stored source with that key, for every kind */
void h_key_wrap(void) {
    v_inputs_init(); v_base_init();
    V_ASSUME(vin_kind < M_SRC_TYPE_END);
    ev_src_t stored; memset(&stored, 0, sizeof stored); ev_src_t key; memset(&key, 0, sizeof key);
    int fd = vin_a; m_src_tmr_t tm = { vin_ja, vin_ua }; m_src_sgn_t sg = { vin_wa };
    static char pth[3]; pth[0] = vin_c0; pth[1] = vin_c1; pth[2] = 0; m_src_path_t pt = { pth, vin_wb };
    m_src_pid_t pd = { vin_jb, vin_wb }; m_src_task_t tk = { vin_jc, NULL };
    m_src_thresh_t th = { vin_ua, dbl(vin_da) }; V_ASSUME(th.activity_freq >= 0.0 && th.activity_freq <= 1e300);
    const void *kd[M_SRC_TYPE_END] = { &fd, &fd, &tm, &sg, &pt, &pd, &tk, &th };
    /* a stored source of that kind holding the same key (plus unrelated private fields set) */
    fill_src_key(&stored, (m_src_types)vin_kind, kd[vin_kind]);
    stored.fd_src.fd = (vin_kind <= M_SRC_TYPE_FD) ? fd : vin_c;      /* internal descriptor of non-fd kinds is unrelated to the key */
    stored.type = (m_src_types)vin_kind; stored.flags = (m_src_flags)vin_wc; stored.userptr = &stored;
    fill_src_key(&key, (m_src_types)vin_kind, kd[vin_kind]);
    V_CHECK("C09.lookup-key-matches-stored-source-with-same-key", src_cmp_map[vin_kind](&key, &stored) == 0);
    V_CHECK("C09.stored-source-matches-itself", src_cmp_map[vin_kind](&stored, &stored) == 0);
    V_COVER("wrap-tmr", vin_kind == M_SRC_TYPE_TMR); V_COVER("wrap-thresh", vin_kind == M_SRC_TYPE_THRESH); V_COVER("wrap-path", vin_kind == M_SRC_TYPE_PATH);
    V_CANARY();
}
