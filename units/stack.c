/* Proof units: Lib/structs/stack.c -- property C12 (and C04 safety).  s.* window units (unbounded), sb.* bounded. */
#include "vbase.h"

size_t g_dtor_calls;
void  *g_dtor_arg;
void   v_elem_dtor(void *p) { g_dtor_calls++; g_dtor_arg = p; }

#include "structs/stack.c"       /* the real translation unit, unmodified */

m_stack_t *g_s; stack_elem *g_top, *g_P, *g_C, *g_td, *g_Cd; stack_elem **g_slot; m_stack_itr_t *g_itr, *g_itr_in;
stack_elem g_dummy_node;

#ifdef V_CBMC
#include "stack.contracts.h"
#else
#include "stack.native.h"
#endif

#define H_INPUTS(X) X(uint64_t, len) X(uint8_t, has_dtor) X(uint8_t, null_arg) X(uint64_t, oom) X(uint8_t, pos) \
                    X(uint8_t, c_last) X(uint8_t, removed) X(uint64_t, up0) X(uint64_t, up1) X(uint64_t, up2) X(uint8_t, null_val) X(uint8_t, null_slot)
V_DEFINE_INPUTS(H_INPUTS)

static stack_elem *mknode(uint64_t up) {
    stack_elem *n = malloc(sizeof *n); V_ASSUME(n != NULL);
    n->userptr = (void *)(uintptr_t)(up | 1);
    n->prev = V_INVALID_PTR(stack_elem *);
    return n;
}
static void common_init(void) {
    v_inputs_init(); v_base_init();
    g_dtor_calls = 0; g_dtor_arg = NULL;
    g_s = NULL; g_top = g_P = g_C = NULL; g_slot = NULL; g_itr = g_itr_in = NULL; g_td = g_Cd = &g_dummy_node;
    g_oom_mask = vin_oom & 1;
}
static void build_stack(void) {
    V_ASSUME(vin_len < V_SLEN_MAX);
    g_s = malloc(sizeof *g_s); V_ASSUME(g_s != NULL);
    g_s->len = vin_len; g_s->dtor = vin_has_dtor ? v_elem_dtor : NULL;
    if (vin_len == 0) g_top = NULL;
    else { g_top = mknode(vin_up0); if (vin_len == 1) g_top->prev = NULL; }   /* len>=2: top->prev is an unmaterialised (invalid) link */
    g_s->data = g_top;
    g_td = g_top ? g_top : &g_dummy_node;
}
/* pos 0: slot &s->data; pos 1: slot &P->prev with P the top; pos 2: P interior.  c_last: C->prev == NULL */
static void build_itr(void) {
    V_ASSUME(vin_len < V_SLEN_MAX && vin_pos <= 2);
    g_s = malloc(sizeof *g_s); V_ASSUME(g_s != NULL);
    g_s->len = vin_len; g_s->dtor = vin_has_dtor ? v_elem_dtor : NULL;
    g_itr = malloc(sizeof *g_itr); V_ASSUME(g_itr != NULL);
    g_itr->s = g_s; g_itr->removed = vin_removed & 1;
    g_top = g_P = g_C = NULL;
    if (vin_len == 0) { V_ASSUME(vin_pos == 0); }
    else if (vin_pos == 0) {
        g_C = mknode(vin_up0); g_top = g_C;
        if (vin_c_last) { V_ASSUME(vin_len == 1); g_C->prev = NULL; } else V_ASSUME(vin_len >= 2);
    } else {
        g_P = mknode(vin_up0);
        if (vin_pos == 1) g_top = g_P; else { g_top = mknode(vin_up2); V_ASSUME(vin_len >= 2); }
        if (vin_null_slot & 2) { g_P->prev = NULL; g_C = NULL; V_ASSUME(vin_pos == 1 ? vin_len == 1 : 1); }   /* P is the last node */
        else { g_C = mknode(vin_up1); g_P->prev = g_C; V_ASSUME(vin_len >= (vin_pos == 1 ? 2 : 3));
               if (vin_c_last) g_C->prev = NULL; }
        if (vin_pos == 1 && vin_len == 1) V_ASSUME(g_C == NULL);
    }
    g_s->data = g_top;
    g_slot = g_P ? &g_P->prev : &g_s->data;
    g_itr->elem = g_slot;
    g_td = g_top ? g_top : &g_dummy_node;
    g_Cd = g_C ? g_C : &g_dummy_node;
    if (g_top && g_top != g_C && g_top != g_P) { /* top unrelated to the window: its link stays invalid */ }
    if (g_top && vin_len == 1 && g_top->prev != NULL) V_ASSUME(0);
    if (g_top && vin_len >= 2 && g_top->prev == NULL) V_ASSUME(0);
    if (g_C == NULL) V_ASSUME(g_itr->removed);
}

void h_s_new(void) { common_init(); m_stack_t *s = VC(m_stack_new)(vin_has_dtor ? v_elem_dtor : NULL);
    V_COVER("new-ok", s != NULL); V_COVER("new-oom", s == NULL); V_CANARY(); }
void h_s_len(void) { common_init(); build_stack(); ssize_t l = VC(m_stack_len)(vin_null_arg ? NULL : g_s);
    V_COVER("len-big", !vin_null_arg && vin_len == 1000000); (void)l; V_CANARY(); }
void h_s_push(void) { common_init(); build_stack();
    int r = VC(m_stack_push)(vin_null_arg ? NULL : g_s, vin_null_val ? NULL : (void *)(uintptr_t)(vin_up2 | 1));
    V_COVER("push-empty", r == 0 && vin_len == 0); V_COVER("push-many", r == 0 && vin_len == 77); V_COVER("push-oom", r == -ENOMEM); V_COVER("push-null", r == -EINVAL);
    V_CANARY(); }
void h_s_pop(void) { common_init(); build_stack(); void *d = VC(m_stack_pop)(vin_null_arg ? NULL : g_s);
    V_COVER("pop-empty", !vin_null_arg && vin_len == 0); V_COVER("pop-one", d && vin_len == 1); V_COVER("pop-many", d && vin_len == 1234); V_CANARY(); }
void h_s_peek(void) { common_init(); build_stack(); void *d = VC(m_stack_peek)(vin_null_arg ? NULL : g_s);
    V_COVER("peek-some", d != NULL && vin_len == 9); V_COVER("peek-empty", d == NULL && !vin_null_arg); V_CANARY(); }
void h_s_remove(void) { common_init(); build_stack(); int r = VC(m_stack_remove)(vin_null_arg ? NULL : g_s);
    V_COVER("rm-dtor", r == 0 && vin_has_dtor); V_COVER("rm-nodtor", r == 0 && !vin_has_dtor && vin_len == 2); V_COVER("rm-empty", r != 0); V_CANARY(); }
void h_s_itr_new(void) { common_init(); build_stack(); m_stack_itr_t *i = VC(m_stack_itr_new)(vin_null_arg ? NULL : g_s);
    V_COVER("itrnew-ok", i != NULL); V_COVER("itrnew-empty", i == NULL && !vin_null_arg && vin_len == 0); V_CANARY(); }
void h_s_itr_next(void) { common_init(); build_itr();
    m_stack_itr_t *slot = (vin_null_slot & 1) ? NULL : g_itr; g_itr_in = slot;
    V_ASSUME(g_itr->removed || g_C != NULL);
    int r = VC(m_stack_itr_next)(vin_null_arg ? NULL : &slot);
    V_COVER("next-mid", r == 0 && slot != NULL && vin_pos == 2 && !vin_removed);
    V_COVER("next-from-top-slot", r == 0 && slot != NULL && vin_pos == 0 && !vin_removed);
    V_COVER("next-after-remove-more", r == 0 && slot != NULL && vin_removed);
    V_COVER("next-ends-at-last", r == 0 && slot == NULL && !vin_removed && !(vin_null_slot & 1) && !vin_null_arg);
    V_COVER("next-ends-after-remove", r == 0 && slot == NULL && vin_removed && !(vin_null_slot & 1) && !vin_null_arg);
    V_CANARY(); }
void h_s_itr_remove(void) { common_init(); build_itr();
    int r = VC(m_stack_itr_remove)(vin_null_arg ? NULL : g_itr);
    V_COVER("itrrm-top-of-many", r == 0 && vin_pos == 0 && !vin_c_last);
    V_COVER("itrrm-only", r == 0 && vin_pos == 0 && vin_c_last);
    V_COVER("itrrm-middle", r == 0 && vin_pos == 2 && !vin_c_last);
    V_COVER("itrrm-last", r == 0 && vin_pos == 2 && vin_c_last);
    V_COVER("itrrm-twice", r == -EINVAL && !vin_null_arg);
    V_CANARY(); }
void h_s_itr_get(void) { common_init(); build_itr(); V_ASSUME(g_itr->removed || g_C != NULL);
    void *d = VC(m_stack_itr_get_data)(vin_null_arg ? NULL : g_itr);
    V_COVER("get-ok", d != NULL); V_COVER("get-removed", d == NULL && !vin_null_arg); V_CANARY(); }
void h_s_itr_set(void) { common_init(); build_itr(); V_ASSUME(g_itr->removed || g_C != NULL);
    int r = VC(m_stack_itr_set_data)(vin_null_arg ? NULL : g_itr, vin_null_val ? NULL : (void *)(uintptr_t)(vin_up2 | 1));
    V_COVER("set-ok", r == 0); V_COVER("set-guard", r != 0 && !vin_null_arg && !vin_null_val); V_CANARY(); }

/* ===================================== bounded stand-ins ============================================ */
#ifndef V_K
#define V_K 4
#endif
#define V_ID(i) ((void *)(uintptr_t)(0x100 + 8 * (i)))
static size_t g_dcount[V_K + 4];
static void v_cnt_dtor(void *p) { size_t i = ((uintptr_t)p - 0x100) / 8; if (i < V_K + 4) g_dcount[i]++; g_dtor_calls++; g_dtor_arg = p; }
/* element i is the i-th from the top */
static m_stack_t *build_full(size_t n, bool dtor) {
    m_stack_t *s = malloc(sizeof *s); V_ASSUME(s != NULL);
    s->len = n; s->dtor = dtor ? v_cnt_dtor : NULL; s->data = NULL;
    stack_elem *prevn = NULL;
    for (size_t i = 0; i < n; i++) {
        stack_elem *e = malloc(sizeof *e); V_ASSUME(e != NULL);
        e->userptr = V_ID(i); e->prev = NULL;
        if (prevn) prevn->prev = e; else s->data = e;
        prevn = e;
    }
    for (size_t i = 0; i < V_K + 4; i++) g_dcount[i] = 0;
    return s;
}
static bool view(m_stack_t *s, void **out, size_t cap, size_t *n) {
    size_t k = 0; stack_elem *e = s->data;
    while (e && k < cap) { out[k++] = e->userptr; e = e->prev; }
    *n = k;
    return e == NULL && s->len == k;
}
#define B_INPUTS(X) X(uint8_t, n) X(uint8_t, has_dtor) X(uint32_t, script) X(uint8_t, extra)
V_DEFINE_INPUTS_2(B_INPUTS)

void h_sb_clear(void) {
    v_inputs2_init(); v_base_init(); g_dtor_calls = 0;
    V_ASSUME(vin_n <= V_K);
    m_stack_t *s = build_full(vin_n, vin_has_dtor);
    int r = vin_extra & 1 ? m_stack_free(&s) : m_stack_clear(s);
    if (vin_extra & 1) V_CHECK("C12.free-releases-everything", r == 0 && s == NULL && g_free_calls == (size_t)vin_n + 1);
    else V_CHECK("C12.clear-empties", r == 0 && s->len == 0 && s->data == NULL && g_free_calls == vin_n);
    for (size_t i = 0; i < V_K; i++)
        V_CHECK("C12.dtor-exactly-once-per-dropped-element", g_dcount[i] == ((i < vin_n && vin_has_dtor) ? 1 : 0));
    V_COVER("clear-full", vin_n == V_K && vin_has_dtor); V_COVER("clear-empty", vin_n == 0);
    V_CANARY();
}
static void *g_seen[V_K + 2]; static size_t g_nseen; static uint32_t g_script;
static int v_iter_cb(void *up, void *data) {
    V_CHECK("C12.iterate-passes-userptr", up == (void *)&g_script);
    if (g_nseen < V_K + 2) g_seen[g_nseen] = data;
    int rc = (int)((g_script >> (2 * g_nseen)) & 3) - 1;
    g_nseen++;
    return rc;
}
void h_sb_iterate(void) {
    v_inputs2_init(); v_base_init(); g_nseen = 0; g_script = vin_script;
    V_ASSUME(vin_n <= V_K);
    m_stack_t *s = build_full(vin_n, vin_has_dtor);
    int r = m_stack_iterate(s, v_iter_cb, &g_script);
    size_t stop = vin_n; int rc_stop = 0;
    for (size_t i = 0; i < vin_n; i++) { int rc = (int)((vin_script >> (2 * i)) & 3) - 1; if (rc != 0) { stop = i + 1; rc_stop = rc; break; } }
    V_CHECK("C12.iterate-visits-in-order-until-stopped", g_nseen == (vin_n == 0 ? 0 : stop));
    for (size_t i = 0; i < V_K; i++) if (i < g_nseen) V_CHECK("C12.iterate-visits-in-order-until-stopped", g_seen[i] == V_ID(i));
    V_CHECK("C12.iterate-result", r == (vin_n == 0 ? -EINVAL : (rc_stop < 0 ? rc_stop : 0)));
    V_COVER("iterate-all", g_nseen == V_K); V_COVER("iterate-stopped-early", vin_n == V_K && g_nseen == 2);
    V_CANARY();
}
void h_sb_walk(void) {
    v_inputs2_init(); v_base_init(); g_dtor_calls = 0;
    V_ASSUME(vin_n <= V_K);
    m_stack_t *s = build_full(vin_n, vin_has_dtor);
    void *model[V_K + 1]; size_t mn = 0; size_t visited = 0;
    m_stack_itr_t *it = m_stack_itr_new(s);
    V_CHECK("C12.itr-new-iff-nonempty", (it != NULL) == (vin_n > 0));
    for (size_t step = 0; it != NULL && step < V_K + 1; step++) {
        unsigned act = (vin_script >> (2 * step)) & 3;
        void *cur = m_stack_itr_get_data(it);
        V_CHECK("C12.itr-visits-each-remaining-element-once-in-order", step < vin_n && cur == V_ID(step));
        visited++;
        if (act == 1) {
            V_CHECK("C12.itr-remove-ok", m_stack_itr_remove(it) == 0);
            V_CHECK("C12.itr-remove-twice-refused", m_stack_itr_remove(it) == -EINVAL);
        } else if (act == 2) {
            V_CHECK("C12.itr-set-ok", m_stack_itr_set_data(it, V_ID(V_K + 1)) == 0);
            model[mn++] = V_ID(V_K + 1);
        } else model[mn++] = cur;
        m_stack_itr_next(&it);
    }
    V_CHECK("C12.itr-visits-each-remaining-element-once-in-order", it == NULL && visited == vin_n);
    for (size_t i = 0; i < V_K; i++) {
        unsigned act = (vin_script >> (2 * i)) & 3;
        V_CHECK("C12.dtor-exactly-once-per-dropped-element", g_dcount[i] == ((i < vin_n && act == 1 && vin_has_dtor) ? 1 : 0));
    }
    V_CHECK("C12.len-exact", m_stack_len(s) == (ssize_t)mn);
    V_CHECK("C12.container-usable-after-iterator-edits", m_stack_push(s, V_ID(V_K + 2)) == 0);
    V_CHECK("C12.lifo-order", m_stack_pop(s) == V_ID(V_K + 2));
    for (size_t i = 0; i < V_K + 1; i++) if (i < mn) V_CHECK("C12.lifo-order", m_stack_pop(s) == model[i]);
    V_CHECK("C12.lifo-order", m_stack_pop(s) == NULL && m_stack_len(s) == 0);
    V_COVER("walk-remove-last", vin_n == 3 && ((vin_script >> 4) & 3) == 1 && (vin_script & 15) == 0);
    V_COVER("walk-remove-all", vin_n == V_K && mn == 0);
    V_CANARY();
}
void h_sb_ops(void) {
    v_inputs2_init(); v_base_init(); g_dtor_calls = 0;
    V_ASSUME(vin_n <= V_K - 1);
    m_stack_t *s = build_full(vin_n, vin_has_dtor);
    void *model[V_K + 4]; size_t mn = vin_n;             /* model[0] is the top */
    for (size_t i = 0; i < V_K; i++) model[i] = V_ID(i);
    size_t next_id = V_K;
    for (int step = 0; step < 3; step++) {
        unsigned op = (vin_script >> (3 * step)) & 7;
        if (op == 0) { V_CHECK("C12.lifo-order", m_stack_push(s, V_ID(next_id)) == 0);
                       for (size_t i = V_K + 3; i > 0; i--) model[i] = model[i - 1]; model[0] = V_ID(next_id); mn++; next_id++; }
        else if (op == 1) { void *d = m_stack_pop(s); V_CHECK("C12.lifo-order", d == (mn ? model[0] : NULL));
                            if (mn) { for (size_t i = 0; i + 1 < V_K + 4; i++) model[i] = model[i + 1]; mn--; } }
        else if (op == 2) { V_CHECK("C12.peek-is-newest", m_stack_peek(s) == (mn ? model[0] : NULL)); }
        else if (op == 3) { size_t before = g_dtor_calls; int r = m_stack_remove(s); V_CHECK("C12.remove-drops-top", r == (mn ? 0 : -EINVAL));
                            V_CHECK("C12.dtor-once-on-dropped-element", g_dtor_calls == before + ((mn && vin_has_dtor) ? 1 : 0) && (!(mn && vin_has_dtor) || g_dtor_arg == model[0]));
                            if (mn) { for (size_t i = 0; i + 1 < V_K + 4; i++) model[i] = model[i + 1]; mn--; } }
        else if (op == 4) { V_CHECK("C12.len-exact", m_stack_len(s) == (ssize_t)mn); }
        else if (op == 5) { int r = m_stack_clear(s); V_CHECK("C12.clear-empties", r == 0); mn = 0; }
        void *v[V_K + 4]; size_t vn;
        V_CHECK("C12.view-matches-model", view(s, v, V_K + 4, &vn) && vn == mn);
        for (size_t i = 0; i < V_K + 2; i++) if (i < mn) V_CHECK("C12.view-matches-model", v[i] == model[i]);
    }
    V_COVER("ops-grow", mn == vin_n + 3); V_COVER("ops-drain", vin_n == 2 && mn == 0);
    V_CANARY();
}

#ifdef V_NATIVE
V_NATIVE_MAIN(V_H(h_s_new), V_H(h_s_len), V_H(h_s_push), V_H(h_s_pop), V_H(h_s_peek), V_H(h_s_remove), V_H(h_s_itr_new),
              V_H(h_s_itr_next), V_H(h_s_itr_remove), V_H(h_s_itr_get), V_H(h_s_itr_set),
              V_H(h_sb_clear), V_H(h_sb_iterate), V_H(h_sb_walk), V_H(h_sb_ops))
#endif
