/* Bounded stand-in for m_mod_unstash() (C16): the REAL evts.c together with the REAL queue.c, every stash of <= V_KSTASH
 * events, every n.  Plain CBMC (no contract instrumentation): the contract-based version with abstract iterator contracts
 * did not finish (see DESIGN.md); callees outside these two files are small recording stubs. */
#include "vcore.h"
#include "structs/queue.c"        /* real */
#include "core/evts.c"            /* real */
#ifndef V_KSTASH
#define V_KSTASH 4
#endif
static m_ctx_t g_ctxobj; static m_mod_t g_modobj; static m_ctx_t *g_mctx;
m_ctx_t *m_ctx(void) { return g_mctx; }
bool m_mod_is(const m_mod_t *mod, m_mod_states st) { return mod && (mod->state & st); }
void fetch_ms(uint64_t *val, uint64_t *ctr) { *val = 1; if (ctr) (*ctr)++; }
static long g_refs[V_KSTASH + 2];                       /* net references taken on each stashed event during the call */
static size_t evidx(void *p);
void *m_mem_ref(void *src) { g_refs[evidx(src)]++; return src; }
void *m_mem_unref(void *src) { if (src) g_refs[evidx(src)]--; return NULL; }
void mem_dtor(void *src) { m_mem_unref(src); }
static evt_priv_t g_evts[V_KSTASH + 1];
static size_t evidx(void *p) { for (size_t i = 0; i < V_KSTASH; i++) if (p == (void *)&g_evts[i]) return i; return V_KSTASH + 1; }
static size_t g_cb_calls, g_cb_n; static void *g_cb_seen[V_KSTASH + 2];
static int v_rec(void *up, void *data) { if (g_cb_n < V_KSTASH + 2) g_cb_seen[g_cb_n] = data; g_cb_n++; return 0; }
void call_pubsub_cb(m_mod_t *mod, m_queue_t *evts) {      /* records the batch in order, then releases it like the real one */
    g_cb_calls++;
    V_CHECK("C16.single-invocation-with-the-unstashed-events", mod == &g_modobj);
    /* a handler may stash again during this invocation: that appends to mod->stashed, so the batch it is handed must be a queue of its own --
     * were it the live stash, the re-stashed event would be delivered and released with it instead of being retained */
    V_CHECK("C16.delivered-batch-is-detached-from-the-live-stash", evts != g_modobj.stashed);
    m_queue_iterate(evts, v_rec, NULL);
    m_queue_free(&evts);
}
#define H_INPUTS(X) X(uint8_t, n) X(uint64_t, len) X(uint8_t, state) X(uint64_t, tokens)
V_DEFINE_INPUTS(H_INPUTS)

void h_unstash_real(void) {
    v_inputs_init(); v_base_init();
    V_ASSUME(vin_n <= V_KSTASH && vin_state == M_MOD_RUNNING && vin_tokens > 0 && vin_len > 0);
    g_mctx = &g_ctxobj; g_modobj.ctx = &g_ctxobj; g_modobj.state = M_MOD_RUNNING; g_modobj.tb.tokens = vin_tokens;
    g_modobj.stashed = m_queue_new(mem_dtor); V_ASSUME(g_modobj.stashed != NULL);
    for (size_t i = 0; i < V_KSTASH; i++) if (i < vin_n) V_ASSUME(m_queue_enqueue(g_modobj.stashed, &g_evts[i]) == 0);
    for (size_t i = 0; i < V_KSTASH + 2; i++) g_refs[i] = 0;
    g_cb_calls = 0; g_cb_n = 0;
    ssize_t r = m_mod_unstash(&g_modobj, vin_len);
    size_t expect = vin_len < vin_n ? (size_t)vin_len : vin_n;
    V_CHECK("C16.unstash-exactly-min-n-stashed", r == (ssize_t)expect);
    V_CHECK("C16.single-invocation-with-the-unstashed-events", g_cb_calls == (expect > 0 ? 1 : 0) + (expect == 0 ? 1 : 0) && g_cb_n == expect);
    for (size_t i = 0; i < V_KSTASH; i++) if (i < expect) V_CHECK("C16.oldest-first-in-stash-order", g_cb_seen[i] == (void *)&g_evts[i]);
    /* the rest stays stashed, in order */
    V_CHECK("C16.rest-stays-stashed", m_queue_len(g_modobj.stashed) == (ssize_t)(vin_n - expect));
    for (size_t i = 0; i < V_KSTASH; i++) if (i >= expect && i < vin_n) V_CHECK("C16.rest-stays-stashed", m_queue_dequeue(g_modobj.stashed) == (void *)&g_evts[i]);
    /* reference accounting: the stash's reference of every moved event was handed over to the delivered batch, which dropped it */
    for (size_t i = 0; i < V_KSTASH; i++) V_CHECK("C16.redelivered-at-most-once", g_refs[i] == (i < expect ? -1 : 0));
    V_COVER("unstash-all", expect == V_KSTASH && vin_len > V_KSTASH); V_COVER("unstash-one-of-many", expect == 1 && vin_n == 3); V_COVER("unstash-none", vin_n == 0);
    V_CANARY();
}
#ifdef V_NATIVE
V_NATIVE_MAIN(V_H(h_unstash_real))
#endif
