/* Proof units over Lib/core/ctx.c: push_evt (C13, C18 refill, C03 userdata), ... */
#include "vmodel.h"
#include "core/ctx.c"            /* the real translation unit, unmodified */
static ev_src_t *g_src; static evt_priv_t *g_evt;
#include "abs.contracts.h"
#include "ctx.contracts.h"

#define H_INPUTS(X) V_MOD_INPUTS(X) X(uint8_t, has_src) X(uint32_t, sflags) X(uint8_t, up_kind) X(uint64_t, up_other)
V_DEFINE_INPUTS(H_INPUTS)

#include "vbuild.h"

void h_push_evt(void) {
    build();
    g_evt = malloc(sizeof *g_evt); __CPROVER_assume(g_evt != NULL);
    g_evt->evt.userdata = (void *)(uintptr_t)0x77; g_evt->evt.type = M_SRC_TYPE_PS;
    if (vin_has_src) {
        g_src = malloc(sizeof *g_src); __CPROVER_assume(g_src != NULL);
        g_src->flags = (m_src_flags)vin_sflags; g_src->mod = g_mod;
        g_src->userptr = vin_up_kind == 1 ? (void *)&g_mod->batch : vin_up_kind == 2 ? (void *)&g_mod->tb : (void *)(uintptr_t)vin_up_other;
    } else g_src = NULL;
    g_evt->src = g_src;
    push_evt(g_mod, g_evt);
    bool internal = g_src && (g_src->flags & M_SRC_INTERNAL);
    V_COVER("internal-batch-timer-flushes", internal && vin_up_kind == 1 && g.cb_calls == 1);
    V_COVER("internal-tb-refill", internal && vin_up_kind == 2 && vin_tokens < vin_burst);
    V_COVER("high-forces", !internal && g_src && (g_src->flags & M_SRC_PRIO_HIGH) && g.cb_calls == 1 && vin_batch_len > vin_batchq_len + 5);
    V_COVER("low-held-back", !internal && g_src && !(g_src->flags & M_SRC_PRIO_HIGH) && (g_src->flags & M_SRC_PRIO_LOW) && g.cb_calls == 0 && vin_batch_len == 0);
    V_COVER("norm-reaches-batch", !internal && g.cb_calls == 1 && vin_batch_len == 3 && vin_batchq_len == 2);
    V_COVER("norm-below-batch", !internal && g.cb_calls == 0 && g.enq_calls == 1);
    V_COVER("nosrc", !g_src && g.cb_calls == 1);
    V_CANARY();
}
