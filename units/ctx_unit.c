/* Proof units over Lib/core/ctx.c: push_evt (C13, C18 refill, C03 userdata), recv_events (C03), ... */
/* loop contract of the receive loop (anchor M_VERIF_LOOP(ctx_recv)): after i iterations i sources have been consumed and handed
 * over, and no error is pending -- in particular errno left behind by user code in push_evt() is not mistaken for one */
#ifdef V_RECV_LOOPCONTRACT
#define M_VERIF_LOOPSPEC_ctx_recv \
    __CPROVER_assigns(i, err, recved, g_errno, g.recv_calls, g.newevt_calls, g.process_calls, g.pushevt_calls, g.unref_calls, g.unref_arg, g.unref_arg_prev, g.fetch_calls, \
                      g_mod->state, g_ctx->stats.running_modules, g_ctx->quit, g_ctx->quit_code) \
    __CPROVER_loop_invariant(0 <= i && i <= nfds && nfds == g_nfds && 0 <= recved && recved <= i) \
    __CPROVER_loop_invariant(g_mod->state != M_MOD_RUNNING || (err == 0 && recved == i && g.pushevt_calls == g_pe0 + (size_t)i && g.process_calls == g_pr0 + (size_t)i) || g_pw_errno != 0) \
    __CPROVER_loop_invariant(g_pw_errno == 0 ? err == 0 : err == g_pw_errno) \
    __CPROVER_loop_invariant(!g_ctx->quit && err >= 0 && err < 200) \
    __CPROVER_loop_invariant(g_mod->state == M_MOD_IDLE || g_mod->state == M_MOD_RUNNING || g_mod->state == M_MOD_PAUSED || g_mod->state == M_MOD_STOPPED || g_mod->state == M_MOD_ZOMBIE) \
    __CPROVER_decreases(nfds - i)
#endif
#ifdef V_DRIVER_UNIT
#define M_VERIF_LOOPSPEC_ctx_loop \
    __CPROVER_assigns(g.recvdrv_calls, g.recvdrv_timeout, g_ctx->quit, g_ctx->quit_code, g_ctx->stats.running_modules) \
    __CPROVER_loop_invariant(g_ctx->state == M_CTX_LOOPING && g.loopstop_calls == 0 && g.loopstart_calls == 1 && (g.recvdrv_calls == 0 || g.recvdrv_timeout == -1))
#endif
#include "vmodel.h"
#include "core/ctx.c"            /* the real translation unit, unmodified */
static ev_src_t *g_src; static evt_priv_t *g_evt;
#include "abs.contracts.h"
#ifdef V_RECV_UNIT
#include "recv.contracts.h"
#elif defined(V_CTXAPI_UNIT)
#include "ctxapi.contracts.h"
#elif defined(V_LOOPSTART_UNIT) || defined(V_LOOPSTOP_UNIT) || defined(V_TICK_UNIT) || defined(V_DRIVER_UNIT)
#include "loop.contracts.h"
#elif defined(V_SETTICK_UNIT)
#include "reg.contracts.h"
#else
#include "ctx.contracts.h"
#endif

#define H_INPUTS(X) V_MOD_INPUTS(X) X(uint8_t, has_src) X(uint32_t, sflags) X(uint8_t, up_kind) X(uint64_t, up_other) X(int32_t, nfds) X(int32_t, pw_errno) X(uint8_t, tls_kind) X(int32_t, tls_set_ret) X(int32_t, ctxnew_ret) X(uint8_t, name_kind)
V_DEFINE_INPUTS(H_INPUTS)

#include "vbuild.h"

#if !defined(V_RECV_UNIT) && !defined(V_CTXAPI_UNIT) && !defined(V_LOOPSTART_UNIT) && !defined(V_LOOPSTOP_UNIT) && !defined(V_TICK_UNIT) && !defined(V_SETTICK_UNIT) && !defined(V_DRIVER_UNIT)
void h_push_evt(void) {
    build();
    g_evt = malloc(sizeof *g_evt); __CPROVER_assume(g_evt != NULL);
    g_evt->evt.userdata = (void *)(uintptr_t)0x77; g_evt->evt.type = M_SRC_TYPE_PS;
    if (vin_has_src) {
        g_src = malloc(sizeof *g_src); __CPROVER_assume(g_src != NULL);
        g_src->flags = (m_src_flags)vin_sflags; g_src->mod = g_mod;
        g_src->userptr = vin_up_kind == 1 ? (void *)&g_mod->batch : vin_up_kind == 2 ? (void *)&g_mod->tb : (void *)(uintptr_t)vin_up_other;
    } else g_src = NULL;
    g_evt->src = g_src;
    push_evt(g_mod, g_evt);
    bool internal = g_src && (g_src->flags & M_SRC_INTERNAL);
    V_COVER("internal-batch-timer-flushes", internal && vin_up_kind == 1 && g.cb_calls == 1);
    V_COVER("internal-tb-refill", internal && vin_up_kind == 2 && vin_tokens < vin_burst);
    V_COVER("high-forces", !internal && g_src && (g_src->flags & M_SRC_PRIO_HIGH) && g.cb_calls == 1 && vin_batch_len > vin_batchq_len + 5);
    V_COVER("low-held-back", !internal && g_src && !(g_src->flags & M_SRC_PRIO_HIGH) && (g_src->flags & M_SRC_PRIO_LOW) && g.cb_calls == 0 && vin_batch_len == 0);
    V_COVER("norm-reaches-batch", !internal && g.cb_calls == 1 && vin_batch_len == 3 && vin_batchq_len == 2);
    V_COVER("norm-below-batch", !internal && g.cb_calls == 0 && g.enq_calls == 1);
    V_COVER("nosrc", !g_src && g.cb_calls == 1);
    V_CANARY();
}
#endif

#ifdef V_RECV_UNIT
char *v_strerror(int e) { static char s[2]; (void)e; return s; }
ev_src_t *v_process(ev_src_t *this, m_ctx_t *c, int idx, evt_priv_t *evt);
void h_recv_events(void) {
    build();
    V_ASSUME(vin_nfds >= 0 && vin_nfds <= V_NFDS_MAX && vin_pw_errno >= 0 && vin_pw_errno < 200 && vin_state == M_MOD_RUNNING && !(vin_quit & 1) && vin_recv_msgs < ((uint64_t)1 << 60));
    g_nfds = vin_pw_errno ? -1 : vin_nfds; g_pw_errno = vin_pw_errno;
    if (vin_pw_errno) g_nfds = -1;
    g_ctx->stats.recv_msgs = vin_recv_msgs;
    g_psrc = malloc(sizeof *g_psrc); __CPROVER_assume(g_psrc != NULL);
    g_psrc->mod = g_mod; g_psrc->process = v_process; g_psrc->flags = M_SRC_PRIO_HIGH; g_psrc->type = M_SRC_TYPE_FD;
    process_cb keep = v_process; (void)keep;
    g_pe0 = g.pushevt_calls; g_pr0 = g.process_calls;
    int r = recv_events(g_ctx, -1);
    V_COVER("batch-of-three", r == 3); V_COVER("batch-empty", r == 0 && vin_pw_errno == 0); V_COVER("poll-eintr", vin_pw_errno == EINTR); V_COVER("poll-failure", r == -1);
    V_COVER("module-stopped-midway", vin_nfds == 3 && g_mod->state != M_MOD_RUNNING);
    V_CANARY();
}
#endif

#ifdef V_CTXAPI_UNIT
static void build_api(void) {
    build();
    V_ASSUME(vin_tls_set_ret <= 0 && vin_tls_set_ret > -200 && vin_ctxnew_ret <= 0 && vin_ctxnew_ret > -200);
    g_tls = vin_tls_kind ? g_ctx : NULL; g_tls_set_ret = vin_tls_set_ret; g_ctxnew_ret = vin_ctxnew_ret;
    g_ctx->state = vin_ctx_state ? M_CTX_LOOPING : M_CTX_IDLE;
}
void h_m_ctx(void) { build_api(); m_ctx_t *c = m_ctx();
    V_COVER("ctx-visible", c != NULL); V_COVER("ctx-denied", c == NULL && g_tls != NULL); V_COVER("ctx-none", g_tls == NULL); V_CANARY(); }
void h_ctx_deregister(void) { build_api();
    g_mctx = (g_tls != NULL && !(g_ctx->curr_mod != NULL && (g_mod->flags & M_MOD_DENY_CTX))) ? g_tls : NULL;     /* what m_ctx() answers (its contract, unit ctx.m_ctx) */
    g_dereg_allowed = g_mctx != NULL && g_ctx->state == M_CTX_IDLE;
    int r = m_ctx_deregister();
    V_COVER("dereg-ok", r == 0); V_COVER("dereg-looping", r == -EINVAL); V_COVER("dereg-none", r == -EPIPE && g_tls == NULL); V_CANARY(); }
#ifdef V_CTXDTOR_UNIT
void h_ctx_dtor(void) { build_api();
    g_ppdata = malloc(16); g_namebuf = malloc(2); g_udbuf = malloc(sizeof(int)); __CPROVER_assume(g_ppdata && g_namebuf && g_udbuf);
    g_ctx->ppriv.data = g_ppdata; g_ctx->name = g_namebuf; g_ctx->userdata = g_udbuf; g_fc0 = g_free_calls;
    ctx_dtor(g_ctx);
    V_COVER("dtor-owns-name-and-userdata", (vin_cflags & M_CTX_NAME_AUTOFREE) && (vin_cflags & M_CTX_USERDATA_AUTOFREE) && g_free_calls == g_fc0 + 3); V_COVER("dtor-owns-nothing", !(vin_cflags & (M_CTX_NAME_AUTOFREE | M_CTX_USERDATA_AUTOFREE)) && g_free_calls == g_fc0 + 1);
    V_CANARY(); }
#endif
#ifdef V_CTXNEW_UNIT
void h_ctx_new(void) { build_api(); static const char nm[2] = "c";
    V_ASSUME(vin_nfds <= 0 && vin_nfds > -200 && vin_pw_errno <= 0 && vin_pw_errno > -200);
    g_tls = NULL; g_pollinit_ret = vin_nfds; g_ips_ret = vin_pw_errno;
    int r = ctx_new(nm, (m_ctx_flags)vin_cflags, &g_modref);
    V_COVER("ctxnew-ok", r == 0 && g_tls != NULL); V_COVER("ctxnew-ok-dup-name", r == 0 && (vin_cflags & M_CTX_NAME_DUP)); V_COVER("ctxnew-poll-fails", r != 0 && vin_nfds != 0); V_COVER("ctxnew-fs-fails", r != 0 && vin_nfds == 0 && vin_pw_errno != 0);
    V_COVER("ctxnew-slot-fails", r != 0 && vin_nfds == 0 && vin_pw_errno == 0);
    V_CANARY(); }
#endif
void h_ctx_register(void) { build_api(); static const char nm[2] = "c", empty[1] = "";
    int r = m_ctx_register(vin_name_kind == 0 ? NULL : vin_name_kind == 1 ? empty : nm, (m_ctx_flags)vin_cflags, NULL);
    V_COVER("reg-eexist", r == -EEXIST); V_COVER("reg-new", vin_tls_kind == 0 && vin_name_kind == 2); V_COVER("reg-badname", r == -EINVAL); V_CANARY(); }
#endif

#if defined(V_LOOPSTART_UNIT) || defined(V_LOOPSTOP_UNIT) || defined(V_TICK_UNIT)
static void build_loop(void) {
    build();
    V_ASSUME(vin_pw_errno <= 0 && vin_pw_errno > -200 && vin_nfds >= 0);
    g_pollinit_ret = vin_pw_errno; g_modules->len = (size_t)vin_nfds; g_ctx->tick.src = vin_has_src ? malloc(sizeof(ev_src_t)) : NULL;
    g_ctx->quit_code = (uint8_t)vin_up_kind; g_ctx->thpool = NULL;
}
#endif
#ifdef V_LOOPSTART_UNIT
void h_loop_start(void) { build_loop(); g_ctx->state = M_CTX_IDLE; int r = loop_start(g_ctx, 64);
    V_COVER("loopstart-ok", r == 0); V_COVER("loopstart-poll-fails", r != 0); V_COVER("loopstart-with-tick", r == 0 && vin_has_src); V_CANARY(); }
#endif
#ifdef V_LOOPSTOP_UNIT
void h_loop_stop(void) { build_loop(); g_ctx->state = M_CTX_LOOPING; uint8_t r = loop_stop(g_ctx);
    V_COVER("loopstop-code", r == 42); V_COVER("loopstop-autorelease", g.ctxdereg_calls == 1); V_COVER("loopstop-persistent-kept", (vin_cflags & M_CTX_PERSIST) && vin_nfds == 0); V_CANARY(); }
#endif
#ifdef V_TICK_UNIT
void h_process_tick(void) { build_loop(); static ev_src_t ts; ev_src_t *r = process_tick(&ts, g_ctx, 0, NULL); (void)r; V_COVER("tick", g.sys_tick == 1); V_CANARY(); }
#endif

#ifdef V_SETTICK_UNIT
void h_set_tick(void) {
    build();
    g_mctx = vin_tls_kind ? g_ctx : NULL;
    g_newsrc = malloc(sizeof *g_newsrc); __CPROVER_assume(g_newsrc != NULL);
    g_ctx->tick.src = vin_has_src ? malloc(sizeof(ev_src_t)) : NULL; g_ctx->tick.tmr.ns = vin_up_other;
    int r = m_ctx_set_tick(vin_batch_len);
    V_COVER("tick-first", r == 0 && !vin_has_src && vin_batch_len == 1000); V_COVER("tick-change-period", r == 0 && vin_has_src && vin_batch_len != 0 && vin_up_other != vin_batch_len); V_COVER("tick-off", r == 0 && vin_batch_len == 0);
    V_CANARY();
}
#endif

#ifdef V_DRIVER_UNIT
static void build_drv(void) {
    build();
    V_ASSUME(vin_tls_set_ret <= 0 && vin_tls_set_ret > -200);
    g_loopstart_ret = vin_tls_set_ret; g_recvdrv_ret = vin_nfds; g_ctx->state = vin_ctx_state ? M_CTX_LOOPING : M_CTX_IDLE; g_ctx->quit_code = (uint8_t)vin_up_other;
}
void h_loop_events(void) {
    build_drv();
    int r = m_ctx_loop_events(g_ctx, vin_pw_errno);
    V_COVER("loop-ran-and-stopped", g.loopstop_calls == 1 && g.recvdrv_calls == 1); V_COVER("loop-nothing-running-at-start", g.loopstop_calls == 1 && g.recvdrv_calls == 0);
    V_COVER("loop-start-failed", r < 0 && g.loopstart_calls == 1); V_COVER("loop-already-looping", r == -EINVAL && g.loopstart_calls == 0 && vin_pw_errno > 0); V_COVER("loop-quit-code-7", r == 7);
    V_CANARY();
}
void h_dispatch(void) {
    build_drv();
    g_mctx = vin_tls_kind ? g_ctx : NULL;
    int r = m_ctx_dispatch();
    V_COVER("dispatch-starts", g.loopstart_calls == 1); V_COVER("dispatch-stops-with-code", g.loopstop_calls == 1 && r == 9); V_COVER("dispatch-delivers", g.recvdrv_calls == 1 && r == 3); V_COVER("dispatch-no-context", r == -EPIPE);
    V_CANARY();
}
#endif
