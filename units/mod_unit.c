/* Proof units over Lib/core/mod.c: lifecycle transitions (C01), notifications (C19), guards. */
#ifdef V_MSRCS_UNIT
/* loop contract of the per-kind walk in manage_srcs() (anchor M_VERIF_LOOP(mod_srcs)); the outer loop over the eight kinds is unwound */
#define V_DROP (flag == RM && stop)
#define V_OTHERS_DROP(k) ((k) < i ? g_sets[k].len == 0 : ((k) > i ? g_sets[k].len == g_L0[k] : 1))
#define V_BEFORE_DROP(k) ((k) < i ? g_sets[k].len == 0 : g_sets[k].len == g_L0[k])
/* outer loop over the eight kinds (anchor M_VERIF_LOOP(mod_kinds)): the kinds before i are done */
#define M_VERIF_LOOPSPEC_mod_kinds \
    __CPROVER_assigns(i, ret, g_bit->t, g_bit->idx, g_bit->removed, g.mit_freed, g_psrc->type, g_sets[0].len, g_sets[1].len, g_sets[2].len, g_sets[3].len, g_sets[4].len, g_sets[5].len, g_sets[6].len, g_sets[7].len, \
                      g.itr_rm_calls, g.tick_poll_calls, g.tick_poll_flag, g_errno, g.starttask_calls, g.flush_calls) \
    __CPROVER_loop_invariant(0 <= i && i <= M_SRC_TYPE_END) \
    __CPROVER_loop_invariant(!V_DROP || (V_BEFORE_DROP(0) && V_BEFORE_DROP(1) && V_BEFORE_DROP(2) && V_BEFORE_DROP(3) && V_BEFORE_DROP(4) && V_BEFORE_DROP(5) && V_BEFORE_DROP(6) && V_BEFORE_DROP(7) \
                                         && g.itr_rm_calls == g_r0 + g_PS[i] && g.tick_poll_calls == g_p0 && g.starttask_calls == g_t0 && g.flush_calls == g_f0 + (i > 0 ? g_L0[0] : 0))) \
    __CPROVER_loop_invariant(V_DROP || (g_sets[0].len == g_L0[0] && g_sets[1].len == g_L0[1] && g_sets[2].len == g_L0[2] && g_sets[3].len == g_L0[3] && g_sets[4].len == g_L0[4] && g_sets[5].len == g_L0[5] \
                                        && g_sets[6].len == g_L0[6] && g_sets[7].len == g_L0[7] && g.itr_rm_calls == g_r0 && g.flush_calls == g_f0 \
                                        && g.tick_poll_calls == g_p0 + g_PS[i] && (g.tick_poll_calls == g_p0 || g.tick_poll_flag == flag) \
                                        && g.starttask_calls == g_t0 + ((flag == ADD && g_pollinit_ret == 0 && i > M_SRC_TYPE_TASK) ? g_L0[M_SRC_TYPE_TASK] : 0))) \
    __CPROVER_decreases(M_SRC_TYPE_END - i)
#define M_VERIF_LOOPSPEC_mod_srcs \
    __CPROVER_assigns(m_itr, m_idx, ret, g_bit->idx, g_bit->removed, g.mit_freed, g_psrc->type, g_sets[0].len, g_sets[1].len, g_sets[2].len, g_sets[3].len, g_sets[4].len, g_sets[5].len, g_sets[6].len, g_sets[7].len, \
                      g.itr_rm_calls, g.tick_poll_calls, g.tick_poll_flag, g_errno, g.starttask_calls, g.flush_calls) \
    __CPROVER_loop_invariant(0 <= i && i < M_SRC_TYPE_END) \
    __CPROVER_loop_invariant(m_itr == NULL || (m_itr == (m_bst_itr_t *)g_bit && g_bit->t == (m_bst_t *)&g_sets[i] && !g_bit->removed && g_bit->idx < g_sets[i].len)) \
    __CPROVER_loop_invariant(!V_DROP || (V_OTHERS_DROP(0) && V_OTHERS_DROP(1) && V_OTHERS_DROP(2) && V_OTHERS_DROP(3) && V_OTHERS_DROP(4) && V_OTHERS_DROP(5) && V_OTHERS_DROP(6) && V_OTHERS_DROP(7) \
                                         && g_sets[i].len <= g_L0[i] && (m_itr == NULL ? g_sets[i].len == 0 : g_bit->idx == 0) \
                                         && g.itr_rm_calls == g_r0 + g_PS[i] + (g_L0[i] - g_sets[i].len) && g.tick_poll_calls == g_p0 && g.starttask_calls == g_t0 \
                                         && g.flush_calls == g_f0 + (i > 0 ? g_L0[0] : g_L0[0] - g_sets[0].len))) \
    __CPROVER_loop_invariant(V_DROP || (g_sets[0].len == g_L0[0] && g_sets[1].len == g_L0[1] && g_sets[2].len == g_L0[2] && g_sets[3].len == g_L0[3] && g_sets[4].len == g_L0[4] && g_sets[5].len == g_L0[5] \
                                        && g_sets[6].len == g_L0[6] && g_sets[7].len == g_L0[7] && g.itr_rm_calls == g_r0 && g.flush_calls == g_f0 \
                                        && g.tick_poll_calls == g_p0 + g_PS[i] + (m_itr == NULL ? g_L0[i] : g_bit->idx) && (g.tick_poll_calls == g_p0 || g.tick_poll_flag == flag) \
                                        && g.starttask_calls == g_t0 + ((flag == ADD && g_pollinit_ret == 0) ? (i > M_SRC_TYPE_TASK ? g_L0[M_SRC_TYPE_TASK] : (i == M_SRC_TYPE_TASK ? (m_itr == NULL ? g_L0[i] : g_bit->idx) : 0)) : 0)))
#endif
#include "vmodel.h"
#ifdef V_MSRCS_UNIT
static struct _bst g_sets[M_SRC_TYPE_END];
#endif
#include "core/mod.c"            /* the real translation unit, unmodified */
#include "abs.contracts.h"
#include "cb.contracts.h"
#ifdef V_RESET_UNIT
#include "fd.contracts.h"
#elif defined(V_MSRCS_UNIT)
#include "msrcs.contracts.h"
#elif defined(V_REG_UNIT)
#include "reg.contracts.h"
#else
#include "mod.contracts.h"
#endif

#define H_INPUTS(X) V_MOD_INPUTS(X) X(uint8_t, flag) X(uint8_t, null_mod) X(int32_t, ips_ret) X(int32_t, ms_ret) X(uint64_t, others) \
                    X(uint8_t, has_on_start) X(uint8_t, has_on_stop) X(uint8_t, has_on_eval) X(uint8_t, hook) X(uint8_t, from_user) X(uint8_t, null_ref) X(int32_t, maprm_ret) X(int32_t, ctxdereg_ret) X(uint64_t, nmods)
V_DEFINE_INPUTS(H_INPUTS)
#include "vbuild.h"

#if !defined(V_RESET_UNIT) && !defined(V_REG_UNIT) && !defined(V_MSRCS_UNIT)
static void build_mod(void) {
    build();
    V_ASSUME(vin_others < ((uint64_t)1 << 59) && vin_ips_ret <= 0 && vin_ms_ret <= 0 && vin_ips_ret > -200 && vin_ms_ret > -200);
    g_others_running = vin_others; g_ips_ret = vin_ips_ret; g_ms_ret = vin_ms_ret;
    g_ctx->stats.running_modules = g_others_running + (g_mod->state == M_MOD_RUNNING ? 1 : 0);     /* the invariant under proof */
    V_ASSUME(vin_maprm_ret <= 0 && vin_maprm_ret > -200 && vin_ctxdereg_ret <= 0 && vin_ctxdereg_ret > -200 && vin_nmods >= 1 && vin_nmods < ((uint64_t)1 << 59));
    g_maprm_ret = vin_maprm_ret; g_ctxdereg_ret = vin_ctxdereg_ret; g_modules->len = vin_nmods;
    if (!vin_has_on_start) g_mod->hook.on_start = NULL;
    if (!vin_has_on_stop) g_mod->hook.on_stop = NULL;
    if (!vin_has_on_eval) g_mod->hook.on_eval = NULL;
}

void h_stop(void) {
    build_mod();
    bool stopping = vin_flag & 1;
    V_ASSUME(g_mod->state != M_MOD_ZOMBIE && (stopping || g_mod->state == M_MOD_RUNNING));
    int r = stop(g_mod, stopping);
    V_COVER("pause", !stopping && r == 0); V_COVER("stop-running", stopping && r == 0 && vin_state == M_MOD_RUNNING); V_COVER("stop-paused", stopping && r == 0 && vin_state == M_MOD_PAUSED);
    V_COVER("stop-deregistered-in-callback", r == -ENOENT); V_COVER("stop-env-failure", r != 0 && r != -ENOENT);
    V_CANARY();
}
void h_start(void) {
    build_mod();
    bool starting = vin_flag & 1;
    V_ASSUME(starting ? (g_mod->state == M_MOD_IDLE || g_mod->state == M_MOD_STOPPED) : g_mod->state == M_MOD_PAUSED);
    int r = start(g_mod, starting);
    V_COVER("resume", !starting && r == 0); V_COVER("start-accepted", starting && r == 0 && g_mod->state == M_MOD_RUNNING);
    V_COVER("start-refused", starting && r == 0 && g.reset_calls == 1); V_COVER("start-deregistered-inside", r == -ENOENT); V_COVER("start-env-failure", r != 0 && r != -ENOENT);
    V_CANARY();
}

void h_optional_hook(void) {
    build_mod();
    V_ASSUME(vin_hook <= 2);
    bool (*keep1)(m_mod_t *) = v_on_start; bool (*keep2)(m_mod_t *) = v_on_eval; void (*keep3)(m_mod_t *) = v_on_stop; (void)keep1; (void)keep2; (void)keep3;
    int r = optional_hook(g_mod, (enum mod_hook)vin_hook);
    V_COVER("hook-start-true", vin_hook == MOD_START && r == 0 && vin_has_on_start); V_COVER("hook-start-false", vin_hook == MOD_START && r == -1);
    V_COVER("hook-deregistered", r == -ENOENT); V_COVER("hook-absent", vin_hook == MOD_EVAL && !vin_has_on_eval && r == 0);
    V_CANARY();
}
void h_mod_deregister(void) {
    build_mod();
    V_ASSUME(g_ms_ret == 0);
    g_modref = vin_null_ref ? NULL : g_mod; g_modref_in = g_modref;
    int r = mod_deregister(vin_null_mod ? NULL : &g_modref, vin_from_user & 1);
    V_COVER("dereg-running-user", r == 0 && vin_state == M_MOD_RUNNING && (vin_from_user & 1)); V_COVER("dereg-idle-internal", r == 0 && vin_state == M_MOD_IDLE && !(vin_from_user & 1));
    V_COVER("dereg-last-autorelease", g.ctxdereg_calls == 1); V_COVER("dereg-persist-looping", r == -EPERM && vin_mctx_kind == 0); V_COVER("dereg-zombie", r == -EACCES);
    V_COVER("dereg-not-in-map", r != 0 && vin_maprm_ret != 0 && vin_mctx_kind == 0 && vin_state == M_MOD_RUNNING && !vin_null_mod && !vin_null_ref);
    V_CANARY();
}
void h_evaluate_module(void) {
    build_mod();
    V_ASSUME(g_mod->state != M_MOD_ZOMBIE);
    int r = evaluate_module(NULL, "m", g_mod);
    V_COVER("eval-true-started", vin_state == M_MOD_IDLE && r == 0 && g.ips_calls == 1); V_COVER("eval-false", vin_state == M_MOD_IDLE && g.ips_calls == 0 && g_mod->state == M_MOD_IDLE);
    V_COVER("eval-not-idle", vin_state == M_MOD_PAUSED); V_COVER("eval-deregistered", r == -ENOENT);
    V_CANARY();
}

#define SETTER_HARNESS(name, fn) \
void h_##name(void) { \
    build_mod(); \
    int r = fn(vin_null_mod ? NULL : g_mod); \
    V_COVER(#name "-ok", r == 0); V_COVER(#name "-wrong-state", r == -EACCES && vin_state != M_MOD_ZOMBIE && !vin_null_mod); V_COVER(#name "-zombie", r == -EACCES && vin_state == M_MOD_ZOMBIE); \
    V_COVER(#name "-foreign", r == -EPERM); V_COVER(#name "-no-token", r == -EAGAIN); V_COVER(#name "-null", r == -EINVAL); V_COVER(#name "-reentrant", r == 0 && vin_has_curr); \
    V_CANARY(); }
SETTER_HARNESS(m_start, m_mod_start)
SETTER_HARNESS(m_pause, m_mod_pause)
SETTER_HARNESS(m_resume, m_mod_resume)
SETTER_HARNESS(m_stop, m_mod_stop)
#ifdef V_TB_UNIT
void h_set_tokenbucket(void) {
    build_mod();
    V_ASSUME(vin_ctxdereg_ret <= 0);
    g_regtmr_ret = vin_ctxdereg_ret; g_mod->tb.timer.ns = vin_nmods == 1 ? 0 : vin_nmods;
    int r = m_mod_set_tokenbucket(vin_null_mod ? NULL : g_mod, (uint32_t)vin_others, vin_action_ctr);
    V_COVER("tb-first-time", r == 0 && vin_nmods == 1 && (uint32_t)vin_others == 1000); V_COVER("tb-reconfigure", g.deregtmr_calls == 1 && g.regtmr_calls == 1);
    V_COVER("tb-disable", r == 0 && (uint32_t)vin_others == 0 && !vin_null_mod); V_COVER("tb-bad-rate", r == -EINVAL && (uint32_t)vin_others > BILLION);
    V_CANARY();
}
#endif
#endif

#ifdef V_RESET_UNIT
void h_reset_module(void) {
    build();
    V_ASSUME(vin_nmods < ((uint64_t)1 << 59));
    g_subs = malloc(sizeof *g_subs); __CPROVER_assume(g_subs != NULL); g_subs->len = vin_nmods; g_subs->internal = 0;
    g_mod->subscriptions = vin_hook ? g_subs : NULL;
    g_mod->pubsub_fd[0] = vin_from_user ? 40 : -1; g_mod->pubsub_fd[1] = vin_from_user ? 41 : -1; g_open_fd = vin_from_user ? 41 : -1;
    g_mod->batch.timer.ns = vin_others; g_mod->tb.timer.ns = vin_others;
    g_bound->len = vin_null_ref;
    reset_module(g_mod);
    V_COVER("reset-open-pipe", vin_from_user); V_COVER("reset-never-started", !vin_from_user); V_COVER("reset-no-subscriptions", !vin_hook);
    V_CANARY();
}
#endif

#ifdef V_REG_UNIT
void h_mod_register(void) {
    build();
    V_ASSUME(vin_maprm_ret <= 0 && vin_maprm_ret > -200 && vin_ctxdereg_ret <= 0 && vin_ctxdereg_ret > -200 && vin_nmods < ((uint64_t)1 << 59));
    g_mctx = g_ctx; g_ctx->finalized = false; g_modules->len = vin_nmods;
    g_oldmod = vin_hook ? g_mod : NULL; g_dereg_ret = vin_maprm_ret; g_mapput_ret = vin_ctxdereg_ret; g_modref = NULL;
    static const char nm[2] = "m"; static m_mod_hook_t hk; hk.on_evt = v_on_evt; hk.on_start = NULL; hk.on_stop = NULL; hk.on_eval = NULL;
    int r = m_mod_register(nm, &g_modref, &hk, (m_mod_flags)(vin_ms_ret & ~M_MOD_NAME_DUP), NULL);
    V_COVER("reg-fresh-name", r == 0 && !vin_hook); V_COVER("reg-eexist", r == -EEXIST); V_COVER("reg-replace", r == 0 && vin_hook); V_COVER("reg-replace-dereg-fails", vin_hook && r != 0 && r != -EEXIST);
    V_COVER("reg-new-allows-replace-old-does-not", r == -EEXIST && ((vin_ms_ret & M_MOD_ALLOW_REPLACE) != 0));
    V_CANARY();
}
#endif

#ifdef V_MSRCS_UNIT
void h_manage_srcs(void) {
    build();
    V_ASSUME(vin_maprm_ret <= 0 && vin_maprm_ret > -200);
    g_bit = malloc(sizeof *g_bit); g_psrc = malloc(sizeof *g_psrc); __CPROVER_assume(g_bit && g_psrc); g_bit->t = NULL; g_bit->idx = 0; g_bit->removed = false; g_psrc->mod = g_mod; g_psrc->type = M_SRC_TYPE_FD;
    uint64_t lens[8] = { vin_nmods & 3, vin_others, vin_running, (vin_nmods >> 2) & 3, (vin_nmods >> 4) & 3, (vin_nmods >> 6) & 3, vin_action_ctr, (vin_nmods >> 8) & 3 };
    g_PS[0] = 0;
    for (int k = 0; k < M_SRC_TYPE_END; k++) { V_ASSUME(lens[k] < 1000000); g_sets[k].len = lens[k]; g_sets[k].internal = 0; g_L0[k] = lens[k]; g_PS[k + 1] = g_PS[k] + lens[k]; g_mod->srcs[k] = (m_bst_t *)&g_sets[k]; }
    g_pollinit_ret = vin_maprm_ret;
    g_p0 = g.tick_poll_calls; g_r0 = g.itr_rm_calls; g_fr0 = g.mit_freed; g_f0 = g.flush_calls; g_t0 = g.starttask_calls;
    int r = manage_srcs(g_mod, g_ctx, vin_flag ? RM : ADD, vin_from_user & 1);
    V_COVER("stop-drops-many", vin_flag && (vin_from_user & 1) && g.itr_rm_calls == 1203 && vin_others == 1000); V_COVER("pause-keeps", vin_flag && !(vin_from_user & 1) && g.tick_poll_calls == 7 && vin_running == 5);
    V_COVER("start-adds-and-starts-tasks", !vin_flag && r == 0 && g.starttask_calls == 4 && vin_action_ctr == 4); V_COVER("no-sources", g_PS[8] == 0);
    V_CANARY();
}
#endif
