/* Guard units (C01, C07, C14, C15, C18): every public module / context entry point, called in a pre-state where its guard must
 * refuse -- module handle NULL or ZOMBIE, calling thread has no context / another context / the context is hidden from a deny-ctx
 * module during its callback, wrong lifecycle state, denied class of call, no token left, reserved topic -- returns a negative code and
 * changes NOTHING: every field of the module and of its context is compared with a snapshot, and every function outside the five core
 * files gets an `assert(false)` body (goto-instrument --generate-function-body), so reaching ANY callee is reported.
 * The REAL ctx.c, mod.c, src.c, ps.c, evts.c in one unit; loop-free paths, full symbolic domain => complete for these paths. */
#include "vcore.h"
#include "utils/utils.c"
#include "core/ctx.c"
#include "core/mod.c"
#include "core/src.c"
#include "core/ps.c"
#include "core/evts.c"

static m_ctx_t *g_tls;
void *v_pthread_getspecific(pthread_key_t k) { (void)k; return g_tls; }
int v_pthread_once(pthread_once_t *o, void (*f)(void)) { (void)o; (void)f; return 0; }
size_t v_strlen(const char *s) { size_t n = 0; while (s[n]) n++; return n; }
int v_strncmp(const char *a, const char *b, size_t n) { for (size_t i = 0; i < n; i++) { if (a[i] != b[i]) return (unsigned char)a[i] < (unsigned char)b[i] ? -1 : 1; if (!a[i]) return 0; } return 0; }

#define H_INPUTS(X) X(uint8_t, state) X(uint32_t, mflags) X(uint64_t, tokens) X(uint8_t, tls_kind) X(uint8_t, has_curr) X(uint8_t, null_mod) X(uint8_t, ctx_state) \
                    X(uint8_t, finalized) X(uint8_t, which_in) X(uint64_t, arg) X(uint32_t, sflags) X(uint8_t, cflags_persist)
V_DEFINE_INPUTS(H_INPUTS)
#ifdef V_WHICH        /* one run per entry point (compile-time): the switch below collapses to a single call */
#define vin_which V_WHICH
#else
#define vin_which vin_which_in
#endif
static m_ctx_t g_ctx, g_other_ctx; static m_mod_t g_mod, g_mod2; static m_mod_t g_mod0; static m_ctx_t g_ctx0;
static bool v_state_valid(unsigned s) { return s == M_MOD_IDLE || s == M_MOD_RUNNING || s == M_MOD_PAUSED || s == M_MOD_STOPPED || s == M_MOD_ZOMBIE; }
static void dummy_evt(m_mod_t *m, const m_queue_t *const q) { (void)m; (void)q; }
static void dummy_log(const m_mod_t *mod, const char *fmt, va_list args) { (void)mod; (void)fmt; }

static void build(void) {
    v_inputs_init(); v_base_init();
    V_ASSUME(v_state_valid(vin_state) && vin_tls_kind <= 2);
    g_mod.state = (m_mod_states)vin_state; g_mod.flags = (m_mod_flags)vin_mflags; g_mod.tb.tokens = vin_tokens; g_mod.tb.burst = UINT64_MAX; g_mod.ctx = &g_ctx; g_mod.name = "m";
    g_mod.pubsub_fd[0] = g_mod.pubsub_fd[1] = -1; g_mod.hook.on_evt = dummy_evt;
    g_mod2.state = M_MOD_RUNNING; g_mod2.ctx = &g_ctx; g_mod2.name = "n"; g_mod2.tb.tokens = 5;
    g_ctx.state = vin_ctx_state ? M_CTX_LOOPING : M_CTX_IDLE; g_ctx.finalized = vin_finalized & 1; g_ctx.curr_mod = vin_has_curr ? &g_mod : NULL; g_ctx.name = "c"; g_ctx.logger = dummy_log;
    g_ctx.flags = vin_cflags_persist ? M_CTX_PERSIST : 0; g_ctx.stats.running_modules = 3;
    g_tls = vin_tls_kind == 0 ? &g_ctx : vin_tls_kind == 1 ? NULL : &g_other_ctx;
    g_other_ctx.curr_mod = NULL;
    g_mod0 = g_mod; g_ctx0 = g_ctx;
}
/* what m_ctx() answers here */
static m_ctx_t *visible_ctx(void) { return (g_tls && g_tls->curr_mod && (g_tls->curr_mod->flags & M_MOD_DENY_CTX)) ? NULL : g_tls; }
static bool g_mod_ok(void) { return !vin_null_mod && !(vin_state & M_MOD_ZOMBIE) && visible_ctx() == &g_ctx; }
static m_mod_states g_mod2_state0 = M_MOD_RUNNING;
static void unchanged(const char *unused) {
    (void)unused;
    V_CHECK("CXX.refused-call-changes-nothing-in-the-module", g_mod.state == g_mod0.state && g_mod.flags == g_mod0.flags && g_mod.tb.tokens == g_mod0.tb.tokens && g_mod.tb.rate == g_mod0.tb.rate
            && g_mod.tb.burst == g_mod0.tb.burst && g_mod.tb.timer.ns == g_mod0.tb.timer.ns && g_mod.batch.len == g_mod0.batch.len && g_mod.batch.timer.ns == g_mod0.batch.timer.ns
            && g_mod.batch.events == g_mod0.batch.events && g_mod.stats.action_ctr == g_mod0.stats.action_ctr && g_mod.stats.last_seen == g_mod0.stats.last_seen
            && g_mod.stats.sent_msgs == g_mod0.stats.sent_msgs && g_mod.stats.recv_msgs == g_mod0.stats.recv_msgs && g_mod.pubsub_fd[0] == -1 && g_mod.pubsub_fd[1] == -1
            && g_mod.recvs == g_mod0.recvs && g_mod.stashed == g_mod0.stashed && g_mod.subscriptions == g_mod0.subscriptions && g_mod.bound_mods == g_mod0.bound_mods
            && g_mod.ctx == &g_ctx && g_mod.name == g_mod0.name && g_mod.userdata == g_mod0.userdata);
    V_CHECK("CXX.refused-call-changes-nothing-in-the-context", g_ctx.state == g_ctx0.state && g_ctx.quit == g_ctx0.quit && g_ctx.quit_code == g_ctx0.quit_code && g_ctx.finalized == g_ctx0.finalized
            && g_ctx.curr_mod == g_ctx0.curr_mod && g_ctx.stats.running_modules == 3 && g_ctx.logger == dummy_log && g_ctx.modules == g_ctx0.modules && g_ctx.tick.src == g_ctx0.tick.src
            && g_ctx.tick.tmr.ns == g_ctx0.tick.tmr.ns && g_ctx.thpool == g_ctx0.thpool && g_ctx.flags == g_ctx0.flags);
    V_CHECK("CXX.refused-call-changes-nothing-in-the-thread-slot", g_tls == (vin_tls_kind == 0 ? &g_ctx : vin_tls_kind == 1 ? NULL : &g_other_ctx) && g_mod2.state == g_mod2_state0 && g_mod2.tb.tokens == 5);
}
#define MODP (vin_null_mod ? NULL : &g_mod)
static m_src_tmr_t k_tmr = { CLOCK_MONOTONIC, 5 }; static m_src_sgn_t k_sgn = { 10 }; static m_src_path_t k_path = { "p", 1 }; static m_src_pid_t k_pid = { 5, 0 };
static int k_taskfn(void *p) { (void)p; return 0; } static m_src_task_t k_task = { 1, k_taskfn }; static m_src_thresh_t k_thr = { 5, 0.5 };
static m_evt_t k_evt; static m_mod_stats_t k_stats; static m_ctx_stats_t k_cstats;

/* ---- module calls guarded by M_MOD_ASSERT (+ token): any state ---------------------------------------------------------------- */
void h_guard_mod(void) {
    build();
    bool consumes = true;
    V_ASSUME(vin_which < 24);
    /* the guard must refuse: bad handle / zombie / no, hidden or foreign context -- or (for rate-limited calls) no token */
    if (vin_which >= 20) consumes = false;             /* dump, stats, src_len, set_tokenbucket(rate 0 path still guarded by M_MOD_ASSERT only) */
    V_ASSUME(!g_mod_ok() || (consumes && vin_tokens == 0));
    long r = 0;
    switch (vin_which) {
        case 0: r = m_mod_set_batch_size(MODP, vin_arg); break;
        case 1: r = m_mod_src_register_fd(MODP, 5, 0, NULL); break;
        case 2: r = m_mod_src_deregister_fd(MODP, 5); break;
        case 3: r = m_mod_src_register_tmr(MODP, &k_tmr, 0, NULL); break;
        case 4: r = m_mod_src_deregister_tmr(MODP, &k_tmr); break;
        case 5: r = m_mod_src_register_sgn(MODP, &k_sgn, 0, NULL); break;
        case 6: r = m_mod_src_deregister_sgn(MODP, &k_sgn); break;
        case 7: r = m_mod_src_register_path(MODP, &k_path, 0, NULL); break;
        case 8: r = m_mod_src_deregister_path(MODP, &k_path); break;
        case 9: r = m_mod_src_register_pid(MODP, &k_pid, 0, NULL); break;
        case 10: r = m_mod_src_deregister_pid(MODP, &k_pid); break;
        case 11: r = m_mod_src_register_task(MODP, &k_task, 0, NULL); break;
        case 12: r = m_mod_src_register_thresh(MODP, &k_thr, 0, NULL); break;
        case 13: r = m_mod_src_deregister_thresh(MODP, &k_thr); break;
        case 14: r = m_mod_bind(MODP, &g_mod2); break;
        case 15: r = m_mod_set_batch_timeout(MODP, 0); V_ASSUME(!g_mod_ok()); break;      /* (timeout 0 with no timer set consumes no token) */
        case 16: r = m_mod_src_register_fd(MODP, 6, M_SRC_FD_AUTOCLOSE, NULL); break;
        case 17: r = m_mod_src_register_tmr(MODP, &k_tmr, M_SRC_ONESHOT, NULL); break;
        case 18: r = m_mod_src_register_path(MODP, &k_path, M_SRC_DUP, NULL); break;
        case 19: r = m_mod_src_deregister_fd(MODP, 6); break;
        case 20: V_ASSUME(!g_mod_ok()); r = m_mod_dump(MODP); break;
        case 21: V_ASSUME(!g_mod_ok()); r = m_mod_stats(MODP, &k_stats); break;
        case 22: V_ASSUME(!g_mod_ok()); r = m_mod_src_len(MODP, M_SRC_TYPE_END); break;
        case 23: V_ASSUME(!g_mod_ok()); r = m_mod_set_tokenbucket(MODP, 0, 0); break;
    }
    V_CHECK("C01.refused-call-returns-negative", r < 0);
    if (g_mod_ok()) V_CHECK("C18.no-token-means-eagain", r == -EAGAIN);
    else if (!vin_null_mod && !(vin_state & M_MOD_ZOMBIE)) V_CHECK("C14.call-from-a-thread-without-the-modules-context-is-refused", r == -EPERM);
    unchanged("");
#ifndef V_WHICH
    V_COVER("guard-no-token", g_mod_ok()); V_COVER("guard-foreign-thread", vin_tls_kind == 2 && !vin_null_mod && !(vin_state & M_MOD_ZOMBIE)); V_COVER("guard-no-context", vin_tls_kind == 1 && !vin_null_mod);
    V_COVER("guard-zombie", (vin_state & M_MOD_ZOMBIE) && !vin_null_mod); V_COVER("guard-deny-ctx-in-callback", vin_tls_kind == 0 && vin_has_curr && (vin_mflags & M_MOD_DENY_CTX));
#else
    V_COVER("refused", r < 0);
#endif
    V_CANARY();
}

/* ---- calls that also need a lifecycle state ----------------------------------------------------------------------------------------- */
void h_guard_state(void) {
    build();
    V_ASSUME(vin_which < 8);
    static const unsigned allowed[8] = { M_MOD_IDLE | M_MOD_STOPPED, M_MOD_RUNNING, M_MOD_PAUSED, M_MOD_RUNNING | M_MOD_PAUSED, M_MOD_RUNNING, M_MOD_RUNNING, M_MOD_RUNNING, M_MOD_RUNNING };
    bool ok = g_mod_ok() && (vin_state & allowed[vin_which]);
    V_ASSUME(!ok || vin_tokens == 0);
    long r = 0;
    switch (vin_which) {
        case 0: r = m_mod_start(MODP); break;      case 1: r = m_mod_pause(MODP); break;
        case 2: r = m_mod_resume(MODP); break;     case 3: r = m_mod_stop(MODP); break;
        case 4: r = m_mod_become(MODP, dummy_evt); break; case 5: r = m_mod_unbecome(MODP); break;
        case 6: r = m_mod_stash(MODP, &k_evt); break;     case 7: r = m_mod_unstash(MODP, 3); break;
    }
    V_CHECK("C01.state-changing-call-in-any-other-state-is-refused", r < 0);
    if (ok) V_CHECK("C18.no-token-means-eagain", r == -EAGAIN);
    else if (g_mod_ok()) V_CHECK("C01.wrong-state-means-eacces", r == -EACCES);
    unchanged("");
#ifndef V_WHICH
    V_COVER("state-wrong", g_mod_ok() && !ok); V_COVER("state-no-token", ok); V_COVER("state-zombie", (vin_state & M_MOD_ZOMBIE) && !vin_null_mod && vin_tls_kind == 0);
#else
    V_COVER("refused", r < 0);
#endif
    V_CANARY();
}

/* ---- pub/sub calls: deny flags, reserved topic, recipient checks ------------------------------------------------------------------------ */
void h_guard_ps(void) {
    build();
    V_ASSUME(vin_which < 7);
    static int payload;
    bool pub = vin_which <= 3;                               /* tell, publish, publish on a reserved topic, poisonpill */
    bool denied = (vin_mflags & (pub ? M_MOD_DENY_PUB : M_MOD_DENY_SUB)) != 0;
    bool reserved = vin_which == 2;
    bool bad_recipient = (vin_which == 3 && vin_arg == 1);   /* poison pill for a module that is not RUNNING */
    if (bad_recipient) { g_mod2.state = M_MOD_PAUSED; g_mod2_state0 = M_MOD_PAUSED; }
    bool foreign_recipient = (vin_which == 0 || vin_which == 3) && vin_arg == 2;      /* recipient lives in another context */
    if (foreign_recipient) g_mod2.ctx = &g_other_ctx;
    bool ok = g_mod_ok() && !denied && !reserved && !bad_recipient && !foreign_recipient;
    V_ASSUME(!ok || vin_tokens == 0);
    long r = 0;
    switch (vin_which) {
        case 0: r = m_mod_ps_tell(MODP, &g_mod2, &payload, 0); break;
        case 1: r = m_mod_ps_publish(MODP, "topic", &payload, 0); break;
        case 2: r = m_mod_ps_publish(MODP, "LIBMODULE_MOD_STARTED", &payload, 0); break;
        case 3: r = m_mod_ps_poisonpill(MODP, &g_mod2); break;
        case 4: r = m_mod_ps_subscribe(MODP, "topic", 0, NULL); break;
        case 5: r = m_mod_ps_unsubscribe(MODP, "topic"); break;
        case 6: r = m_mod_ps_subscribe(MODP, "topic", M_SRC_PRIO_LOW | M_SRC_PRIO_HIGH, NULL); V_ASSUME(!g_mod_ok() || denied || vin_tokens > 0); break;   /* two priorities: bad parameters */
    }
    V_CHECK("C15.denied-call-fails", r < 0);
    if (g_mod_ok() && denied) V_CHECK("C15.deny-flag-means-eperm", r == -EPERM);
    if (g_mod_ok() && !denied && reserved) V_CHECK("C15.reserved-system-topic-always-refused", r == -EPERM);
    if (g_mod_ok() && !denied && foreign_recipient) V_CHECK("C14.message-cannot-be-addressed-to-a-module-of-another-context", r == -EINVAL);
    if (g_mod_ok() && !denied && vin_which == 6) V_CHECK("C09.registration-rejected-for-bad-parameters-leaves-no-trace", r == -EINVAL);
    unchanged("");
    V_CHECK("C02.refused-send-reaches-nobody", g_mod2.stats.recv_msgs == 0);
#ifndef V_WHICH
    V_COVER("ps-deny-pub", g_mod_ok() && denied && pub); V_COVER("ps-deny-sub", g_mod_ok() && denied && !pub); V_COVER("ps-reserved", g_mod_ok() && !denied && reserved);
    V_COVER("ps-foreign-recipient", g_mod_ok() && !denied && foreign_recipient); V_COVER("ps-pill-not-running", g_mod_ok() && !denied && bad_recipient); V_COVER("ps-no-token", ok);
#else
    V_COVER("refused", r < 0);
#endif
    V_CANARY();
}

/* ---- context calls on a thread without (visible) context; registration gates ----------------------------------------------------------- */
void h_guard_ctx(void) {
    build();
    V_ASSUME(vin_which < 13 && vin_tls_kind != 2);       /* context calls act on the calling thread's own context: here this thread's context (if any) is g_ctx */
    bool novis = visible_ctx() == NULL;
    bool refuse = novis;
    if (vin_which == 11) refuse = novis || (vin_finalized & 1);                          /* m_mod_register: also refused once the context is finalised */
    if (vin_which == 12) refuse = novis || vin_ctx_state;                                /* m_ctx_deregister: also refused while looping */
    if (vin_which == 3) refuse = novis || !vin_ctx_state;                                /* m_ctx_quit: only while looping */
    if (vin_which == 6) refuse = novis || !vin_ctx_state;                                /* m_ctx_stats: only while looping */
    V_ASSUME(refuse);
    long r = 0; m_mod_t *ref = NULL; static const m_mod_hook_t hook = { .on_evt = dummy_evt };
    switch (vin_which) {
        case 0: r = m_ctx_set_logger(dummy_log); break;  case 1: r = m_ctx_loop(); V_ASSUME(novis); break;
        case 2: r = m_ctx_dispatch(); V_ASSUME(novis); break; case 3: r = m_ctx_quit(3); break;
        case 4: r = m_ctx_fd(); V_ASSUME(novis); break;       case 5: r = m_ctx_dump(); V_ASSUME(novis); break;
        case 6: r = m_ctx_stats(&k_cstats); break;            case 7: r = m_ctx_len(); V_ASSUME(novis); break;
        case 8: r = m_ctx_finalize(); V_ASSUME(novis); break; case 9: r = m_ctx_set_tick(5); V_ASSUME(novis); break;
        case 10: r = (m_ctx_name() == NULL && m_ctx_userdata() == NULL) ? -1 : 0; V_ASSUME(novis); break;
        case 11: r = m_mod_register("x", &ref, &hook, 0, NULL); break;
        case 12: r = m_ctx_deregister(); break;
    }
    V_CHECK("C07.context-call-without-context-fails", r < 0);
    if (novis) V_CHECK("C07.no-context-means-epipe", vin_which == 10 || r == -EPIPE);
    if (!novis && vin_which == 11) V_CHECK("C07.no-module-can-be-registered-after-finalize", r == -EPERM && ref == NULL);
    unchanged("");
#ifndef V_WHICH
    V_COVER("ctx-none", vin_tls_kind == 1); V_COVER("ctx-hidden-from-deny-ctx-module", vin_tls_kind == 0 && novis); V_COVER("ctx-finalized-register", !novis && vin_which == 11);
    V_COVER("ctx-looping-deregister", !novis && vin_which == 12);
#else
    V_COVER("refused", r < 0);
#endif
    V_CANARY();
}
