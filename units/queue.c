/* Proof units: Lib/structs/queue.c -- property C12 (and C04 safety).
 * q.*   : idiom B, window + proved frame, len fully symbolic (unbounded in the number of nodes)
 * qb.*  : idiom D, bounded stand-in: every queue of <= V_K nodes, full structure, abstract-view checks */
#include "vbase.h"

size_t g_dtor_calls;
void  *g_dtor_arg;
void   v_elem_dtor(void *p) { g_dtor_calls++; g_dtor_arg = p; }

#include "structs/queue.c"       /* the real translation unit, unmodified (-I$REPO/Lib) */

/* ghost window (see queue.contracts.h) */
m_queue_t *g_q; queue_elem *g_head, *g_tail, *g_P, *g_C, *g_hd, *g_Cd; queue_elem **g_slot; m_queue_itr_t *g_itr, *g_itr_in;
queue_elem g_dummy_node;

#ifdef V_CBMC
#include "queue.contracts.h"
#else
#include "queue.native.h"
#endif

/* ---------------------------------------------------------------------------------------------------
 * window builder.  Inputs:  len (any), has_dtor, null_arg, oom, and for iterator units the position:
 *   pos 0: slot is &q->head          (g_P == NULL)
 *   pos 1: slot is &P->prev, P head  pos 2: P interior   pos 3: P is the tail (then *slot == NULL)
 *   c_tail: the current node C is the tail;  removed: iterator is in "just removed" state
 * Links that leave the window are invalid non-NULL sentinels. */
#define H_INPUTS(X) X(uint64_t, len) X(uint8_t, has_dtor) X(uint8_t, null_arg) X(uint64_t, oom) X(uint8_t, pos) \
                    X(uint8_t, c_tail) X(uint8_t, removed) X(uint64_t, up0) X(uint64_t, up1) X(uint64_t, up2) X(uint8_t, null_val) X(uint8_t, null_slot)
V_DEFINE_INPUTS(H_INPUTS)

static queue_elem *mknode(uint64_t up) {
    queue_elem *n = malloc(sizeof *n); V_ASSUME(n != NULL);
    n->userptr = (void *)(uintptr_t)(up | 1);   /* non-NULL user data; identity only */
    n->prev = V_INVALID_PTR(queue_elem *);
    return n;
}
static void common_init(void) {
    v_inputs_init(); v_base_init();
    g_dtor_calls = 0; g_dtor_arg = NULL;
    g_q = NULL; g_head = g_tail = g_P = g_C = NULL; g_slot = NULL; g_itr = g_itr_in = NULL; g_hd = g_Cd = &g_dummy_node;
    g_oom_mask = vin_oom & 1;
}
/* queue window without iterator */
static void build_queue(void) {
    V_ASSUME(vin_len < V_QLEN_MAX);
    g_q = malloc(sizeof *g_q); V_ASSUME(g_q != NULL);
    g_q->len = vin_len; g_q->dtor = vin_has_dtor ? v_elem_dtor : NULL;
    if (vin_len == 0) { g_head = g_tail = NULL; }
    else if (vin_len == 1) { g_head = g_tail = mknode(vin_up0); g_head->prev = NULL; }
    else {
        g_head = mknode(vin_up0); g_tail = mknode(vin_up1); g_tail->prev = NULL;
        if (vin_len == 2) g_head->prev = g_tail;      /* else: head->prev stays an invalid sentinel (interior unmaterialised) */
    }
    g_q->head = g_head; g_q->tail = g_tail;
    g_hd = g_head ? g_head : &g_dummy_node;
}
/* queue window with an iterator somewhere */
static void build_itr(void) {
    V_ASSUME(vin_len < V_QLEN_MAX && vin_pos <= 3);
    g_q = malloc(sizeof *g_q); V_ASSUME(g_q != NULL);
    g_q->len = vin_len; g_q->dtor = vin_has_dtor ? v_elem_dtor : NULL;
    g_itr = malloc(sizeof *g_itr); V_ASSUME(g_itr != NULL);
    g_itr->q = g_q; g_itr->removed = vin_removed & 1;
    g_head = g_tail = g_P = g_C = NULL;
    if (vin_len == 0) {                      /* only reachable right after removing the only element */
        V_ASSUME(vin_pos == 0);
    } else {
        if (vin_pos == 0) {                  /* slot = &q->head, C = head */
            g_C = mknode(vin_up0); g_head = g_C;
            if (vin_c_tail) { V_ASSUME(vin_len == 1); g_tail = g_C; g_C->prev = NULL; }
            else { V_ASSUME(vin_len >= 2); g_tail = mknode(vin_up1); g_tail->prev = NULL; if (vin_len == 2) g_C->prev = g_tail; }
        } else if (vin_pos == 3) {           /* P is the tail, slot = &tail->prev, C = NULL (iterator past the last; only in removed state) */
            g_P = mknode(vin_up0); g_P->prev = NULL; g_tail = g_P;
            if (vin_len == 1) g_head = g_P; else { g_head = mknode(vin_up1); if (vin_len == 2) g_head->prev = g_P; }
        } else {                             /* P head (1) or interior (2), C = P->prev */
            g_P = mknode(vin_up0); g_C = mknode(vin_up1); g_P->prev = g_C;
            if (vin_pos == 1) { g_head = g_P; V_ASSUME(vin_len >= 2); }
            else { g_head = mknode(vin_up2); V_ASSUME(vin_len >= 3); if (vin_len == 3 && !vin_c_tail) { /* head,P,C + tail = 4 */ V_ASSUME(0); } }
            if (vin_c_tail) { g_tail = g_C; g_C->prev = NULL; V_ASSUME(vin_len == (vin_pos == 1 ? 2 : vin_len)); }
            else { g_tail = malloc(sizeof *g_tail); V_ASSUME(g_tail != NULL); g_tail->userptr = (void *)(uintptr_t)5; g_tail->prev = NULL;
                   V_ASSUME(vin_len >= (vin_pos == 1 ? 3 : 4)); }
        }
    }
    g_q->head = g_head; g_q->tail = g_tail;
    g_slot = g_P ? &g_P->prev : &g_q->head;
    g_itr->elem = g_slot;
    g_hd = g_head ? g_head : &g_dummy_node;
    g_Cd = g_C ? g_C : &g_dummy_node;
    /* an iterator whose slot shows NULL exists only transiently, right after a removal */
    if (g_C == NULL) V_ASSUME(g_itr->removed);
}

/* ---- window units --------------------------------------------------------------------------------- */
void h_q_new(void) { common_init(); m_queue_t *q = VC(m_queue_new)(vin_has_dtor ? v_elem_dtor : NULL);
    V_COVER("new-ok", q != NULL); V_COVER("new-oom", q == NULL); V_CANARY(); }

void h_q_len(void) { common_init(); build_queue(); ssize_t l = VC(m_queue_len)(vin_null_arg ? NULL : g_q);
    V_COVER("len-big", !vin_null_arg && vin_len == 1000000); V_COVER("len-null", vin_null_arg); (void)l; V_CANARY(); }

void h_q_enqueue(void) { common_init(); build_queue();
    void *data = vin_null_val ? NULL : (void *)(uintptr_t)(vin_up2 | 1);
    int r = VC(m_queue_enqueue)(vin_null_arg ? NULL : g_q, data);
    V_COVER("enq-empty", r == 0 && vin_len == 0); V_COVER("enq-one", r == 0 && vin_len == 1); V_COVER("enq-two", r == 0 && vin_len == 2);
    V_COVER("enq-many", r == 0 && vin_len == 77); V_COVER("enq-oom", r == -ENOMEM); V_COVER("enq-null", r == -EINVAL);
    V_CANARY(); }

void h_q_dequeue(void) { common_init(); build_queue(); void *d = VC(m_queue_dequeue)(vin_null_arg ? NULL : g_q);
    V_COVER("deq-empty", !vin_null_arg && vin_len == 0); V_COVER("deq-one", d && vin_len == 1); V_COVER("deq-two", d && vin_len == 2);
    V_COVER("deq-many", d && vin_len == 1234); V_CANARY(); }

void h_q_peek(void) { common_init(); build_queue(); void *d = VC(m_queue_peek)(vin_null_arg ? NULL : g_q);
    V_COVER("peek-some", d != NULL && vin_len == 9); V_COVER("peek-empty", d == NULL && !vin_null_arg); V_CANARY(); }

void h_q_remove(void) { common_init(); build_queue(); int r = VC(m_queue_remove)(vin_null_arg ? NULL : g_q);
    V_COVER("rm-dtor", r == 0 && vin_has_dtor); V_COVER("rm-nodtor", r == 0 && !vin_has_dtor && vin_len == 2); V_COVER("rm-empty", r != 0); V_CANARY(); }

void h_q_itr_new(void) { common_init(); build_queue(); m_queue_itr_t *i = VC(m_queue_itr_new)(vin_null_arg ? NULL : g_q);
    V_COVER("itrnew-ok", i != NULL); V_COVER("itrnew-empty", i == NULL && !vin_null_arg && vin_len == 0); V_COVER("itrnew-oom", i == NULL && vin_len > 0 && !vin_null_arg); V_CANARY(); }

void h_q_itr_next(void) { common_init(); build_itr();
    m_queue_itr_t *slot = vin_null_slot ? NULL : g_itr; g_itr_in = slot;
    V_ASSUME(g_itr->removed || g_C != NULL);
    int r = VC(m_queue_itr_next)(vin_null_arg ? NULL : &slot);
    V_COVER("next-mid", r == 0 && slot != NULL && vin_pos == 2 && !vin_removed);
    V_COVER("next-from-head-slot", r == 0 && slot != NULL && vin_pos == 0 && !vin_removed);
    V_COVER("next-after-remove-more", r == 0 && slot != NULL && vin_removed);
    V_COVER("next-ends-at-tail", r == 0 && slot == NULL && !vin_removed && !vin_null_slot && !vin_null_arg);
    V_COVER("next-ends-after-remove", r == 0 && slot == NULL && vin_removed && !vin_null_slot && !vin_null_arg);
    V_CANARY(); }

void h_q_itr_remove(void) { common_init(); build_itr();
    int r = VC(m_queue_itr_remove)(vin_null_arg ? NULL : g_itr);
    V_COVER("itrrm-first-of-many", r == 0 && vin_pos == 0 && !vin_c_tail);
    V_COVER("itrrm-only", r == 0 && vin_pos == 0 && vin_c_tail);
    V_COVER("itrrm-middle", r == 0 && vin_pos == 2 && !vin_c_tail);
    V_COVER("itrrm-last-after-head", r == 0 && vin_pos == 1 && vin_c_tail);
    V_COVER("itrrm-last-interior", r == 0 && vin_pos == 2 && vin_c_tail);
    V_COVER("itrrm-twice", r == -EINVAL && !vin_null_arg);
    V_CANARY(); }

void h_q_itr_get(void) { common_init(); build_itr(); V_ASSUME(g_itr->removed || g_C != NULL);
    void *d = VC(m_queue_itr_get_data)(vin_null_arg ? NULL : g_itr);
    V_COVER("get-ok", d != NULL); V_COVER("get-removed", d == NULL && !vin_null_arg); V_CANARY(); }

void h_q_itr_set(void) { common_init(); build_itr(); V_ASSUME(g_itr->removed || g_C != NULL);
    int r = VC(m_queue_itr_set_data)(vin_null_arg ? NULL : g_itr, vin_null_val ? NULL : (void *)(uintptr_t)(vin_up2 | 1));
    V_COVER("set-ok", r == 0); V_COVER("set-guard", r != 0 && !vin_null_arg && !vin_null_val); V_CANARY(); }


/* ===================================================================================================
 * bounded stand-ins (idiom D): EVERY queue of n <= V_K nodes (n symbolic), real functions end to end,
 * checked against an array model.  Labelled bounded in the evidence; never counted as proved. */
#ifndef V_K
#define V_K 4
#endif
#define V_ID(i) ((void *)(uintptr_t)(0x100 + 8 * (i)))
static size_t g_dcount[V_K + 4];            /* destructor invocations per element id */
static void v_cnt_dtor(void *p) { size_t i = ((uintptr_t)p - 0x100) / 8; if (i < V_K + 4) g_dcount[i]++; g_dtor_calls++; g_dtor_arg = p; }
static m_queue_t *build_full(size_t n, bool dtor) {
    m_queue_t *q = malloc(sizeof *q); V_ASSUME(q != NULL);
    q->len = n; q->dtor = dtor ? v_cnt_dtor : NULL; q->head = q->tail = NULL;
    queue_elem *prevn = NULL;
    for (size_t i = 0; i < n; i++) {
        queue_elem *e = malloc(sizeof *e); V_ASSUME(e != NULL);
        e->userptr = V_ID(i); e->prev = NULL;
        if (prevn) prevn->prev = e; else q->head = e;
        prevn = e; q->tail = e;
    }
    for (size_t i = 0; i < V_K + 4; i++) g_dcount[i] = 0;
    return q;
}
/* the abstract view of a well-formed queue, written into out[]; returns false if the structure is broken */
static bool view(m_queue_t *q, void **out, size_t cap, size_t *n) {
    size_t k = 0; queue_elem *e = q->head, *last = NULL;
    while (e && k < cap) { out[k++] = e->userptr; last = e; e = e->prev; }
    *n = k;
    return e == NULL && q->len == k && q->tail == last;
}

#define B_INPUTS(X) X(uint8_t, n) X(uint8_t, has_dtor) X(uint32_t, script) X(uint8_t, extra)
V_DEFINE_INPUTS_2(B_INPUTS)

void h_qb_clear(void) {
    v_inputs2_init(); v_base_init(); g_dtor_calls = 0;
    V_ASSUME(vin_n <= V_K);
    m_queue_t *q = build_full(vin_n, vin_has_dtor);
    int r = vin_extra & 1 ? m_queue_free(&q) : m_queue_clear(q);
    if (vin_extra & 1) {
        V_CHECK("C12.free-releases-everything", r == 0 && q == NULL && g_free_calls == (size_t)vin_n + 1);
    } else {
        V_CHECK("C12.clear-empties", (vin_n == 0 ? r == -EINVAL : r == 0) && q->len == 0 && q->head == NULL && q->tail == NULL && g_free_calls == vin_n);
    }
    for (size_t i = 0; i < V_K; i++)
        V_CHECK("C12.dtor-exactly-once-per-dropped-element", g_dcount[i] == ((i < vin_n && vin_has_dtor) ? 1 : 0));
    V_COVER("clear-full", vin_n == V_K && vin_has_dtor); V_COVER("clear-empty", vin_n == 0);
    V_CANARY();
}

static void *g_seen[V_K + 2]; static size_t g_nseen; static uint32_t g_script;
static int v_iter_cb(void *up, void *data) {
    V_CHECK("C12.iterate-passes-userptr", up == (void *)&g_script);
    if (g_nseen < V_K + 2) g_seen[g_nseen] = data;
    int rc = (int)((g_script >> (2 * g_nseen)) & 3) - 1;      /* -1, 0, 1, 2 per call */
    g_nseen++;
    return rc;
}
void h_qb_iterate(void) {
    v_inputs2_init(); v_base_init(); g_nseen = 0; g_script = vin_script;
    V_ASSUME(vin_n <= V_K);
    m_queue_t *q = build_full(vin_n, vin_has_dtor);
    int r = m_queue_iterate(q, v_iter_cb, &g_script);
    size_t stop = vin_n; int rc_stop = 0;                     /* model: first non-zero callback result stops the walk */
    for (size_t i = 0; i < vin_n; i++) { int rc = (int)((vin_script >> (2 * i)) & 3) - 1; if (rc != 0) { stop = i + 1; rc_stop = rc; break; } }
    V_CHECK("C12.iterate-visits-in-order-until-stopped", g_nseen == (vin_n == 0 ? 0 : stop));
    for (size_t i = 0; i < V_K; i++) if (i < g_nseen) V_CHECK("C12.iterate-visits-in-order-until-stopped", g_seen[i] == V_ID(i));
    V_CHECK("C12.iterate-result", r == (vin_n == 0 ? -EINVAL : (rc_stop < 0 ? rc_stop : 0)));
    V_COVER("iterate-all", g_nseen == V_K); V_COVER("iterate-stopped-early", vin_n == V_K && g_nseen == 2);
    V_CANARY();
}

/* walk the whole queue with an iterator; at each element the script chooses keep / remove / replace;
 * afterwards the queue must behave: enqueue one more, then dequeue everything and compare with the model */
void h_qb_walk(void) {
    v_inputs2_init(); v_base_init(); g_dtor_calls = 0;
    V_ASSUME(vin_n <= V_K);
    m_queue_t *q = build_full(vin_n, vin_has_dtor);
    void *model[V_K + 1]; size_t mn = 0; size_t visited = 0;
    m_queue_itr_t *it = m_queue_itr_new(q);
    V_CHECK("C12.itr-new-iff-nonempty", (it != NULL) == (vin_n > 0));
    for (size_t step = 0; it != NULL && step < V_K + 1; step++) {
        unsigned act = (vin_script >> (2 * step)) & 3;
        void *cur = m_queue_itr_get_data(it);
        V_CHECK("C12.itr-visits-each-remaining-element-once-in-order", step < vin_n && cur == V_ID(step));
        visited++;
        if (act == 1) {
            V_CHECK("C12.itr-remove-ok", m_queue_itr_remove(it) == 0);
            V_CHECK("C12.itr-remove-twice-refused", m_queue_itr_remove(it) == -EINVAL);
        } else if (act == 2) {
            V_CHECK("C12.itr-set-ok", m_queue_itr_set_data(it, V_ID(V_K + 1)) == 0);
            model[mn++] = V_ID(V_K + 1);
        } else model[mn++] = cur;
        m_queue_itr_next(&it);
    }
    V_CHECK("C12.itr-visits-each-remaining-element-once-in-order", it == NULL && visited == vin_n);
    for (size_t i = 0; i < V_K; i++) {
        unsigned act = (vin_script >> (2 * i)) & 3;
        V_CHECK("C12.dtor-exactly-once-per-dropped-element", g_dcount[i] == ((i < vin_n && act == 1 && vin_has_dtor) ? 1 : 0));
    }
    V_CHECK("C12.len-exact", m_queue_len(q) == (ssize_t)mn);
    /* later operations keep behaving */
    V_CHECK("C12.container-usable-after-iterator-edits", m_queue_enqueue(q, V_ID(V_K + 2)) == 0);
    model[mn++] = V_ID(V_K + 2);
    for (size_t i = 0; i < V_K + 1; i++) if (i < mn) V_CHECK("C12.fifo-order", m_queue_dequeue(q) == model[i]);
    V_CHECK("C12.fifo-order", m_queue_dequeue(q) == NULL && m_queue_len(q) == 0);
    V_COVER("walk-remove-last", vin_n == 3 && ((vin_script >> 4) & 3) == 1 && (vin_script & 15) == 0);
    V_COVER("walk-remove-all", vin_n == V_K && mn == 1);
    V_CANARY();
}

/* arbitrary well-formed queue + a script of 3 operations, against the array model */
void h_qb_ops(void) {
    v_inputs2_init(); v_base_init(); g_dtor_calls = 0;
    V_ASSUME(vin_n <= V_K - 1);
    m_queue_t *q = build_full(vin_n, vin_has_dtor);
    void *model[V_K + 4]; size_t mn = vin_n;
    for (size_t i = 0; i < V_K; i++) model[i] = V_ID(i);
    size_t next_id = V_K;
    for (int step = 0; step < 3; step++) {
        unsigned op = (vin_script >> (3 * step)) & 7;
        if (op == 0) { V_CHECK("C12.fifo-order", m_queue_enqueue(q, V_ID(next_id)) == 0); model[mn++] = V_ID(next_id); next_id++; }
        else if (op == 1) { void *d = m_queue_dequeue(q); V_CHECK("C12.fifo-order", d == (mn ? model[0] : NULL));
                            if (mn) { for (size_t i = 0; i + 1 < V_K + 4; i++) model[i] = model[i + 1]; mn--; } }
        else if (op == 2) { V_CHECK("C12.peek-is-oldest", m_queue_peek(q) == (mn ? model[0] : NULL)); }
        else if (op == 3) { size_t before = g_dtor_calls; int r = m_queue_remove(q); V_CHECK("C12.remove-drops-head", r == (mn ? 0 : -EINVAL));
                            V_CHECK("C12.dtor-once-on-dropped-element", g_dtor_calls == before + ((mn && vin_has_dtor) ? 1 : 0) && (!(mn && vin_has_dtor) || g_dtor_arg == model[0]));
                            if (mn) { for (size_t i = 0; i + 1 < V_K + 4; i++) model[i] = model[i + 1]; mn--; } }
        else if (op == 4) { V_CHECK("C12.len-exact", m_queue_len(q) == (ssize_t)mn); }
        else if (op == 5) { int r = m_queue_clear(q); V_CHECK("C12.clear-empties", r == (mn ? 0 : -EINVAL)); mn = 0; }
        void *v[V_K + 4]; size_t vn;
        V_CHECK("C12.view-matches-model", view(q, v, V_K + 4, &vn) && vn == mn);
        for (size_t i = 0; i < V_K + 2; i++) if (i < mn) V_CHECK("C12.view-matches-model", v[i] == model[i]);
    }
    V_COVER("ops-grow", mn == vin_n + 3); V_COVER("ops-drain", vin_n == 2 && mn == 0);
    V_CANARY();
}

#ifdef V_NATIVE
V_NATIVE_MAIN(V_H(h_qb_clear), V_H(h_qb_iterate), V_H(h_qb_walk), V_H(h_qb_ops), V_H(h_q_new), V_H(h_q_len), V_H(h_q_enqueue), V_H(h_q_dequeue), V_H(h_q_peek), V_H(h_q_remove), V_H(h_q_itr_new),
              V_H(h_q_itr_next), V_H(h_q_itr_remove), V_H(h_q_itr_get), V_H(h_q_itr_set))
#endif
