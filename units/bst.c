/* Proof units: Lib/structs/bst.c -- property C11 (and C04 safety).
 * b.*  : unbounded (idiom A/B): ptrcmp, insert_node, remove_node (<=1 child), new, len
 * bb.* : bounded stand-ins (idiom D): every binary search tree of <= V_K nodes, all shapes, all key sets from a
 *        16-value universe, with user comparator (keys) or the default pointer comparator */
#include "vbase.h"

size_t g_dtor_calls;
void  *g_dtor_arg;
void   v_elem_dtor(void *p) { g_dtor_calls++; g_dtor_arg = p; }

#include "structs/bst.c"       /* the real translation unit, unmodified */

m_bst_t *g_t; bst_node **g_slot; bst_node *g_N, *g_child, *g_Nd; bst_node g_dummy_node;

#ifdef V_TRAV_UNIT
bst_node *g_W, *g_WL, *g_WR; size_t g_szL, g_szR, g_cbcalls, g_cbposW; void *g_Wup;
int v_trav_cb(void *up, void *data);
#endif
#ifdef V_CBMC
#include "bst.contracts.h"
#else
#include "bst.native.h"
#endif

#define H_INPUTS(X) X(uint64_t, a) X(uint64_t, b) X(uint64_t, len) X(uint8_t, has_dtor) X(uint8_t, null_arg) X(uint64_t, oom) \
                    X(uint8_t, slotkind) X(uint8_t, childkind) X(uint8_t, absent) X(uint64_t, up0)
V_DEFINE_INPUTS(H_INPUTS)

static void common_init(void) {
    v_inputs_init(); v_base_init();
    g_dtor_calls = 0; g_dtor_arg = NULL; g_t = NULL; g_slot = NULL; g_N = g_child = NULL; g_Nd = &g_dummy_node;
    g_oom_mask = vin_oom & 1;
}
static bst_node *mknode(uint64_t up) {
    bst_node *n = malloc(sizeof *n); V_ASSUME(n != NULL);
    n->userptr = (void *)(uintptr_t)(up | 1);
    n->parent = V_INVALID_PTR(bst_node *); n->left = V_INVALID_PTR(bst_node *); n->right = V_INVALID_PTR(bst_node *);
    return n;
}
/* tree window: slot is &t->root (0), &X->left (1) or &X->right (2) of some node X */
static bst_node *g_X;
static void build_window(void) {
    V_ASSUME(vin_len < V_TLEN_MAX && vin_slotkind <= 2);
    g_t = malloc(sizeof *g_t); V_ASSUME(g_t != NULL);
    g_t->len = vin_len; g_t->dtor = vin_has_dtor ? v_elem_dtor : NULL; g_t->comp = ptrcmp; g_t->root = V_INVALID_PTR(bst_node *);
    g_X = NULL;
    if (vin_slotkind == 0) g_slot = &g_t->root;
    else { g_X = mknode(7); g_slot = vin_slotkind == 1 ? &g_X->left : &g_X->right; V_ASSUME(vin_len >= 1); }
    *g_slot = NULL;
}

void h_b_ptrcmp(void) {
    common_init();
    /* all pairs of addresses: any two 64-bit values */
    int r = VC(ptrcmp)((void *)(uintptr_t)vin_a, (void *)(uintptr_t)vin_b);
    V_COVER("far-apart", vin_a > vin_b && vin_a - vin_b > ((uint64_t)1 << 33)); V_COVER("equal", vin_a == vin_b && r == 0);
    (void)r; V_CANARY();
}
void h_b_new(void) { common_init(); m_bst_t *t = VC(m_bst_new)(NULL, vin_has_dtor ? v_elem_dtor : NULL);
    V_COVER("new-ok", t != NULL); V_COVER("new-oom", t == NULL); V_CANARY(); }
void h_b_len(void) { common_init(); build_window(); ssize_t n = VC(m_bst_len)(vin_null_arg ? NULL : g_t);
    V_COVER("len-big", !vin_null_arg && vin_len == 1000000); (void)n; V_CANARY(); }
void h_b_insert_node(void) {
    common_init(); build_window();
    int r = VC(insert_node)(g_t, g_slot, g_X, (void *)(uintptr_t)(vin_up0 | 1));
    V_COVER("ins-root", r == 0 && vin_slotkind == 0); V_COVER("ins-left", r == 0 && vin_slotkind == 1); V_COVER("ins-oom", r != 0);
    V_CANARY();
}
void h_b_remove_node(void) {
    common_init(); build_window();
    if (!vin_absent) {
        V_ASSUME(vin_len >= (g_X ? 2 : 1) && vin_childkind <= 2);
        g_N = mknode(vin_up0); g_N->parent = g_X ? g_X : NULL; g_N->left = NULL; g_N->right = NULL;
        if (vin_childkind) { g_child = mknode(9); g_child->parent = g_N; if (vin_childkind == 1) g_N->left = g_child; else g_N->right = g_child; }
        *g_slot = g_N; g_Nd = g_N;
    }
    int r = VC(remove_node)(g_t, g_slot);
    V_COVER("rm-leaf", r == 0 && vin_childkind == 0); V_COVER("rm-left-child", r == 0 && vin_childkind == 1); V_COVER("rm-right-child-at-root", r == 0 && vin_childkind == 2 && vin_slotkind == 0);
    V_COVER("rm-absent", r == -ENOENT);
    V_CANARY();
}

#ifdef V_TRAV_UNIT
#define TRAV_INPUTS(X) X(uint64_t, szl) X(uint64_t, szr) X(uint8_t, null_node) X(uint64_t, c0)
static void build_trav(void) {
    common_init();
    V_ASSUME(vin_a < ((uint64_t)1 << 60) && vin_b < ((uint64_t)1 << 60) && vin_len < ((uint64_t)1 << 60));
    g_szL = vin_a; g_szR = vin_b; g_cbcalls = vin_len; g_cbposW = ~(size_t)0;
    g_W = mknode(vin_up0); g_Wup = g_W->userptr; g_W->parent = NULL;
    g_WL = g_szL ? mknode(3) : NULL; g_WR = g_szR ? mknode(5) : NULL; g_W->left = g_WL; g_W->right = g_WR;
    m_bst_cb keep = v_trav_cb; (void)keep;
}
void h_b_traverse_in(void) { build_trav(); int r = traverse_inorder(vin_null_arg ? NULL : g_W, v_trav_cb, &g_cbcalls);
    V_COVER("in-both-subtrees", r == 0 && !vin_null_arg && vin_a == 70 && vin_b == 3 && g_cbcalls == vin_len + 74); V_COVER("in-leaf", !vin_null_arg && vin_a == 0 && vin_b == 0); V_COVER("in-empty", vin_null_arg); V_CANARY(); }
void h_b_traverse_pre(void) { build_trav(); int r = traverse_preorder(vin_null_arg ? NULL : g_W, v_trav_cb, &g_cbcalls);
    V_COVER("pre-both-subtrees", r == 0 && !vin_null_arg && vin_a == 70 && vin_b == 3); V_COVER("pre-empty", vin_null_arg); V_CANARY(); }
void h_b_traverse_post(void) { build_trav(); int r = traverse_postorder(vin_null_arg ? NULL : g_W, v_trav_cb, &g_cbcalls);
    V_COVER("post-both-subtrees", r == 0 && !vin_null_arg && vin_a == 70 && vin_b == 3); V_COVER("post-empty", vin_null_arg); V_CANARY(); }
#endif
/* ===================================== bounded stand-ins ============================================ */
#ifndef V_N
#define V_N 0
#define V_SHAPE 0x0ull
#endif
#define V_K (V_N > 0 ? V_N : 1)
#define V_NKEYS 16
/* stored element for key k: V_VAL(k,1); a query for key k is a DIFFERENT pointer V_VAL(k,2) that compares equal */
#define V_VAL(key, tb) ((void *)(uintptr_t)(0x1000 + 16 * (key) + (tb)))
#define V_KEY(p) ((((uintptr_t)(p)) - 0x1000) / 16)
static int v_cmp(void *a, void *b) { size_t ka = V_KEY(a), kb = V_KEY(b); return ka == kb ? 0 : (ka < kb ? -1 : 1); }
static size_t g_dlog_n; static void *g_dlog[V_K + 4];
static void v_log_dtor(void *p) { if (g_dlog_n < V_K + 4) g_dlog[g_dlog_n] = p; g_dlog_n++; g_dtor_calls++; g_dtor_arg = p; }

#define B_INPUTS(X) X(uint8_t, n) X(uint8_t, has_dtor) X(uint8_t, defcmp) X(uint32_t, keys) X(uint32_t, script) X(uint8_t, x) X(uint8_t, order)
V_DEFINE_INPUTS_2(B_INPUTS)

static uint32_t g_mask;       /* model: set of keys present */
/* with the default comparator elements ARE their addresses: query pointer must be the stored pointer */
#define V_QUERY(k) (vin_defcmp ? V_VAL(k, 1) : V_VAL(k, 2))
/* One CBMC run per tree SHAPE (compile-time): V_SHAPE packs the pre-order sequence of key ranks (4 bits each) of a
 * tree with V_N nodes; the registry enumerates every 231-avoiding permutation, i.e. every binary-search-tree shape
 * with <= K nodes exactly once.  Stored keys are 2*rank+2 (2,4,6,...), so the symbolic query key x in 0..15 covers
 * every position relative to the stored keys (below, between, equal, above).  A comparator-only structure cannot
 * distinguish key sets with the same relative order, so this enumeration loses nothing over "all key sets". */
#ifndef V_N
#define V_N 0
#define V_SHAPE 0x0ull
#endif
static m_bst_t *build_tree(void) {
    V_ASSUME(vin_n == V_N);
    m_bst_t *t = malloc(sizeof *t); V_ASSUME(t != NULL);
    t->len = V_N; t->root = NULL; t->dtor = vin_has_dtor ? v_log_dtor : NULL; t->comp = vin_defcmp ? ptrcmp : v_cmp;
    g_mask = 0;
    for (size_t i = 0; i < V_N; i++) {
        unsigned k = 2 * (unsigned)((V_SHAPE >> (4 * i)) & 15) + 2;
        g_mask |= 1u << k;
        bst_node *e = malloc(sizeof *e); V_ASSUME(e != NULL);
        e->userptr = V_VAL(k, 1); e->left = e->right = e->parent = NULL;
        bst_node **s = &t->root; bst_node *par = NULL;
        for (size_t d = 0; d < V_N && *s; d++) { par = *s; s = k < V_KEY((*s)->userptr) ? &(*s)->left : &(*s)->right; }
        *s = e; e->parent = par;
    }
    g_dlog_n = 0;
    return t;
}
/* shape invariant + abstract view: returns the key set, checks order, parent links, count */
static bool g_shape_ok; static size_t g_count;
static uint32_t chk(bst_node *n, bst_node *parent, int lo, int hi, int depth) {
    if (!n) return 0;
    if (depth > V_K + 1) { g_shape_ok = false; return 0; }
    int k = (int)V_KEY(n->userptr);
    if (n->parent != parent || k <= lo || k >= hi) g_shape_ok = false;
    g_count++;
    return chk(n->left, n, lo, k, depth + 1) | (1u << (k & 31)) | chk(n->right, n, k, hi, depth + 1);
}
static uint32_t tree_view(m_bst_t *t) {
    g_shape_ok = true; g_count = 0;
    uint32_t m = chk(t->root, NULL, -1, V_NKEYS, 0);
    if (g_count != t->len) g_shape_ok = false;
    return m;
}

void h_bb_insert(void) {
    v_inputs2_init(); v_base_init(); V_ASSUME(vin_x < V_NKEYS);
    m_bst_t *t = build_tree();
    bool present = g_mask & (1u << vin_x);
    void *q = vin_defcmp ? V_VAL(vin_x, 1) : V_VAL(vin_x, 2);
    int r = m_bst_insert(t, q);
    V_CHECK("C11.insert-accepts-iff-no-equal-element", r == (present ? -EEXIST : 0));
    uint32_t m = tree_view(t);
    V_CHECK("C11.set-view-after-insert", g_shape_ok && m == (g_mask | (1u << vin_x)) && m_bst_len(t) == (ssize_t)(vin_n + (present ? 0 : 1)));
    if (present) V_CHECK("C11.rejected-insert-keeps-stored-element", m_bst_find(t, q) == V_VAL(vin_x, 1));
    V_COVER("insert-new", !present);
#if V_N > 0
    V_COVER("insert-dup", present);
#endif
    V_CANARY();
}
void h_bb_find(void) {
    v_inputs2_init(); v_base_init(); V_ASSUME(vin_x < V_NKEYS);
    m_bst_t *t = build_tree();
    bool present = g_mask & (1u << vin_x);
    void *f = m_bst_find(t, V_QUERY(vin_x));
    V_CHECK("C11.find-returns-the-equal-element", f == (present ? V_VAL(vin_x, 1) : NULL));
    V_COVER("find-miss", !present);
#if V_N > 0
    V_COVER("find-hit", present);
#endif
    V_CANARY();
}
void h_bb_remove(void) {
    v_inputs2_init(); v_base_init(); V_ASSUME(vin_x < V_NKEYS);
    m_bst_t *t = build_tree();
    bool present = g_mask & (1u << vin_x);
    int r = m_bst_remove(t, V_QUERY(vin_x));
    uint32_t m = tree_view(t);
    if (vin_n == 0) V_CHECK("C11.remove-empty", r == -EINVAL);
    else V_CHECK("C11.remove-exactly-the-equal-element", r == (present ? 0 : -ENOENT));
    V_CHECK("C11.set-view-after-remove", g_shape_ok && m == (g_mask & ~(1u << vin_x)));
    V_CHECK("C11.dtor-exactly-once-on-the-removed-element", g_dlog_n == ((present && vin_has_dtor) ? 1 : 0)
                                                           && (!(present && vin_has_dtor) || g_dlog[0] == V_VAL(vin_x, 1)));
#if V_N > 0
    V_COVER("remove-present-with-dtor", present && vin_has_dtor);
#endif
    V_COVER("remove-absent", !present);
    V_CANARY();
}
static void *g_seen[V_K + 2]; static size_t g_nseen; static uint32_t g_script;
static int v_trav_cb(void *up, void *data) {
    V_CHECK("C11.traverse-passes-userptr", up == (void *)&g_script);
    if (g_nseen < V_K + 2) g_seen[g_nseen] = data;
    int rc = (int)((g_script >> (2 * g_nseen)) & 3) - 1;
    g_nseen++;
    return rc;
}
static void *g_exp[V_K + 2]; static size_t g_nexp;
static void walk(bst_node *n, int order, int depth) {          /* reference traversal of the real structure */
    if (!n || depth > V_K + 1) return;
    if (order == M_BST_PRE && g_nexp < V_K + 2) g_exp[g_nexp++] = n->userptr;
    walk(n->left, order, depth + 1);
    if (order == M_BST_IN && g_nexp < V_K + 2) g_exp[g_nexp++] = n->userptr;
    walk(n->right, order, depth + 1);
    if (order == M_BST_POST && g_nexp < V_K + 2) g_exp[g_nexp++] = n->userptr;
}
void h_bb_traverse(void) {
    v_inputs2_init(); v_base_init(); g_nseen = 0; g_script = vin_script; g_nexp = 0;
    V_ASSUME(vin_order <= 2);
    m_bst_t *t = build_tree();
    int order = vin_order == 0 ? M_BST_PRE : vin_order == 1 ? M_BST_IN : M_BST_POST;
    walk(t->root, order, 0);
    int r = m_bst_traverse(t, order, v_trav_cb, &g_script);
    size_t stop = vin_n; int rc_stop = 0;
    for (size_t i = 0; i < vin_n; i++) { int rc = (int)((vin_script >> (2 * i)) & 3) - 1; if (rc != 0) { stop = i + 1; rc_stop = rc; break; } }
    V_CHECK("C11.traversal-visits-each-element-once-in-the-requested-order", g_nseen == stop && g_nexp == vin_n);
    for (size_t i = 0; i < V_K; i++) if (i < g_nseen) V_CHECK("C11.traversal-visits-each-element-once-in-the-requested-order", g_seen[i] == g_exp[i]);
    if (order == M_BST_IN) for (size_t i = 0; i + 1 < V_K; i++) if (i + 1 < g_nseen) V_CHECK("C11.in-order-strictly-ascending", V_KEY(g_seen[i]) < V_KEY(g_seen[i + 1]));
    V_CHECK("C11.traverse-result", r == (rc_stop < 0 ? rc_stop : 0));
    V_COVER("trav-all-post", vin_order == 2 && g_nseen == V_N);
#if V_N >= 2
    V_COVER("trav-stopped", g_nseen == 1);
#endif
    V_CANARY();
}
/* iterator walk with optional removal of the current element at every step */
/* the removal script is a compile-time constant too (one run per shape x script): with a symbolic script the heap
 * becomes symbolic after the first step and a 4-node walk did not finish in 600 s; concrete runs take ~1 s each */
#ifdef V_SCRIPT
#define WALK_SCRIPT ((uint32_t)V_SCRIPT)
#else
#define WALK_SCRIPT vin_script
#endif
void h_bb_walk(void) {
    v_inputs2_init(); v_base_init();
#ifdef V_SCRIPT
    V_ASSUME(vin_script == V_SCRIPT);
#endif
    m_bst_t *t = build_tree();
    uint32_t remaining = g_mask, expect_next = g_mask; size_t visited = 0, removed = 0;
    m_bst_itr_t *it = m_bst_itr_new(t);
    V_CHECK("C11.itr-new-iff-nonempty", (it != NULL) == (vin_n > 0));
    for (size_t step = 0; it != NULL && step < V_K + 1; step++) {
        void *cur = m_bst_itr_get_data(it);
        /* the element yielded must be the smallest not yet visited: strictly ascending, each exactly once */
        unsigned k = (unsigned)V_KEY(cur);
        V_CHECK("C11.iterator-ascending-each-element-exactly-once", cur != NULL && k < V_NKEYS && (expect_next & (1u << k)) && (expect_next & ((1u << k) - 1)) == 0
                                                                       && cur == V_VAL(k, 1));
        expect_next &= ~(1u << k); visited++;
        if ((WALK_SCRIPT >> step) & 1) {
            size_t before = g_dlog_n;
            V_CHECK("C11.itr-remove-ok", m_bst_itr_remove(it) == 0);
            V_CHECK("C11.itr-remove-twice-refused", m_bst_itr_remove(it) == -EINVAL);
            V_CHECK("C11.dtor-exactly-once-on-the-removed-element", g_dlog_n == before + (vin_has_dtor ? 1 : 0) && (!vin_has_dtor || g_dlog[before < V_K + 4 ? before : 0] == cur));
            remaining &= ~(1u << k); removed++;
        }
        m_bst_itr_next(&it);
    }
    V_CHECK("C11.iterator-ascending-each-element-exactly-once", it == NULL && visited == vin_n && expect_next == 0);
    uint32_t m = tree_view(t);
    V_CHECK("C11.set-view-after-iterator-removals", g_shape_ok && m == remaining);
    V_COVER("walk-done", visited == V_N);
    V_CANARY();
}
void h_bb_clear(void) {
    v_inputs2_init(); v_base_init();
    m_bst_t *t = build_tree();
    int r = (vin_x & 1) ? m_bst_free(&t) : m_bst_clear(t);
    if (vin_x & 1) V_CHECK("C11.free-releases-everything", r == 0 && t == NULL && g_free_calls == (size_t)vin_n + 1 + (vin_n ? 1 : 0));
    else V_CHECK("C11.clear-empties", r == (vin_n ? 0 : -EINVAL) && t->len == 0 && t->root == NULL && g_free_calls == (size_t)vin_n + (vin_n ? 1 : 0));
    V_CHECK("C11.dtor-exactly-once-per-cleared-element", g_dlog_n == (vin_has_dtor ? vin_n : 0));
    uint32_t seen = 0;
    for (size_t i = 0; i < V_K; i++) if (i < g_dlog_n) { unsigned k = (unsigned)V_KEY(g_dlog[i]); V_CHECK("C11.dtor-exactly-once-per-cleared-element", k < V_NKEYS && g_dlog[i] == V_VAL(k, 1) && (g_mask & (1u << k)) && !(seen & (1u << k))); seen |= 1u << k; }
    V_COVER("clear-with-dtor", vin_has_dtor);
    V_CANARY();
}

#ifdef V_NATIVE
V_NATIVE_MAIN(V_H(h_b_ptrcmp), V_H(h_b_new), V_H(h_b_len), V_H(h_b_insert_node), V_H(h_b_remove_node),
              V_H(h_bb_insert), V_H(h_bb_find), V_H(h_bb_remove), V_H(h_bb_traverse), V_H(h_bb_walk), V_H(h_bb_clear))
#endif
