/* Proof units over Lib/thpool/thpool.c (C06).  The worker loop and the wait loop carry loop contracts (anchors pool_worker / pool_wait). */
#ifdef V_POOL_WORKER
/* one worker iteration, for ever: at the loop head the mutex is not held and every record dequeued so far was run exactly once
 * (outside the mutex) and released exactly once */
#define M_VERIF_LOOPSPEC_pool_worker \
    __CPROVER_assigns(g_lock_held, g.lock_calls, g.unlock_calls, g.wait_calls, g.deq_calls, g.task_calls, g_free_calls, g_free_arg, g_free_arg0, \
                      g_pool->shutdown, g_tasks->len, g_tasks->first, g_tasks->last, g_threads->len, g_pool->running_tasks) \
    __CPROVER_loop_invariant(!g_lock_held && g.task_calls == g_tc0 + (g.deq_calls - g_dq0) && g_free_calls == g_fc0 + (g.deq_calls - g_dq0) && g.deq_calls >= g_dq0) \
    __CPROVER_loop_invariant(g_tasks->len < ((size_t)1 << 60) && g_threads->len < 256 && g_pool->shutdown <= SHUTDOWN_WAITALL && g.unlock_calls == g.lock_calls)
/* waiting for work: the mutex is held all along, the predicate is re-tested after every wake-up (spurious ones included) */
#define M_VERIF_LOOPSPEC_pool_wait \
    __CPROVER_assigns(g.wait_calls, g_pool->shutdown, g_tasks->len, g_tasks->first, g_tasks->last, g_threads->len) \
    __CPROVER_loop_invariant(g_lock_held && g_tasks->len < ((size_t)1 << 60) && g_threads->len < 256 && g_pool->shutdown <= SHUTDOWN_WAITALL)
#endif
#ifdef V_POOL_SPAWN
/* spawn loop (anchor pool_spawn): after i attempts, i workers exist and are recorded -- or the last attempt failed */
#define M_VERIF_LOOPSPEC_pool_spawn \
    __CPROVER_assigns(i, err, g_thslot, g.create_calls, g.linsert_calls, g_threads->len, g_alloc_calls, g_last_alloc, g_free_calls, g_free_arg, g_free_arg0) \
    __CPROVER_loop_invariant(0 <= i && i <= num && g.create_calls == g_c0 + (size_t)i && g_alloc_calls == g_ac0 + (size_t)i && g_oom_mask == 0) \
    __CPROVER_loop_invariant(err == 0 ? ((size_t)i <= g_fail_at && (size_t)i <= g_oom_at && g_threads->len == g_l0 + (size_t)i && g_free_calls == g_fc0) \
                                      : ((size_t)i == g_fail_at + 1 && g_fail_at < g_oom_at && err == g_create_err && g_threads->len == g_l0 + g_fail_at && g_free_calls == g_fc0 + 1)) \
    __CPROVER_loop_invariant(g.linsert_calls - 0 == g.linsert_calls && g_threads->len - g_l0 == g.linsert_calls - g_li0) \
    __CPROVER_decreases(num - i)
#endif
#ifdef V_POOL_WAIT
/* join loop (anchor pool_join): after m_idx iterations m_idx workers have been joined */
#define M_VERIF_LOOPSPEC_pool_join \
    __CPROVER_assigns(m_idx, m_itr, ret, g.join_calls, g_lit->idx) \
    __CPROVER_loop_invariant(m_idx <= g_threads->len && g.join_calls == g_j0 + m_idx && ret == 0 && !g_lock_held) \
    __CPROVER_loop_invariant((m_itr == NULL) == (m_idx == g_threads->len)) \
    __CPROVER_loop_invariant(m_itr == NULL || (m_itr == g_lit && g_lit->l == g_threads && g_lit->idx == m_idx)) \
    __CPROVER_decreases(g_threads->len - m_idx)
#endif
#include "vbase.h"
#include "vthread.h"
#include <errno.h>
#include <stdatomic.h>
/* ghost containers (the pool only handles opaque container pointers) */
#include "public/module/structs/itr.h"
struct _queue { size_t len; void *first; void *last; };
struct _list  { size_t len; };
struct _list_itr { m_list_t *l; size_t idx; };
struct _list_itr *g_lit; pthread_t g_thobj; size_t g_j0;
typedef struct { size_t lnew_calls, qnew_calls, minit_calls, cinit_calls, tpfree_calls; int tpfree_state; size_t detach_calls, linsert_calls; size_t waitpool_calls, conddestroy_calls, mutexdestroy_calls, qfree_calls, lfree_calls, qclear_calls; int waitpool_mode; size_t lock_calls, unlock_calls, wait_calls, signal_calls, bcast_calls, addthr_calls, enq_calls, deq_calls, task_calls, join_calls, create_calls; int addthr_num; void *enq_arg; m_queue_t *enq_q; } ghost_t;
ghost_t g; bool g_lock_held; int g_lock_ret, g_addthr_ret; size_t g_tc0, g_dq0, g_fc0; void *g_task_arg;
#include "public/module/thpool/thpool.h"
m_thpool_t *g_pool, *g_poolref; m_queue_t *g_tasks; m_list_t *g_threads; int g_wait_ret; unsigned g_fail_stage; pthread_t g_thslot; size_t g_fail_at, g_oom_at, g_c0, g_l0, g_ac0, g_li0; int g_create_err;
#include "thpool/thpool.c"       /* the real translation unit, unmodified */
thpool_task_t *g_task_rec;
static inline bool v_q_ok_fn(const struct _queue *q) { return q != NULL && V_RW_OK(q, sizeof(struct _queue)) && q->len < ((size_t)1 << 60); }
#define V_Q_OK(q) v_q_ok_fn(q)
V_CONTRACT
int m_queue_enqueue(m_queue_t *q, void *data)
V_REQUIRES(V_Q_OK(q) && data != NULL && g_lock_held)                                         /*@C06.queue-touched-only-under-the-mutex*/
V_ASSIGNS(q->len, q->last, q->first, g.enq_calls, g.enq_arg, g.enq_q)
V_ENSURES(V_RET == 0 && q->len == V_OLD(q->len) + 1 && g.enq_calls == V_OLD(g.enq_calls) + 1 && g.enq_arg == data && g.enq_q == q)
;
#include "thpool.contracts.h"

#define H_INPUTS(X) X(uint8_t, null_pool) X(uint8_t, null_task) X(uint8_t, shutdown) X(uint32_t, init_state) X(uint32_t, pflags) X(uint8_t, max_threads) X(uint64_t, nthreads) X(uint64_t, ntasks) \
                    X(uint32_t, running) X(int32_t, lock_ret) X(int32_t, addthr_ret)
V_DEFINE_INPUTS(H_INPUTS)
void *v_task(void *arg);
static void build_pool(void) {
    v_inputs_init(); v_base_init(); memset(&g, 0, sizeof g);
    V_ASSUME(vin_shutdown <= SHUTDOWN_WAITALL && vin_nthreads < 256 && vin_ntasks < ((uint64_t)1 << 58) && vin_lock_ret >= 0 && vin_lock_ret < 200 && vin_addthr_ret >= 0 && vin_addthr_ret < 200);
    g_pool = malloc(sizeof *g_pool); g_tasks = malloc(sizeof *g_tasks); g_threads = malloc(sizeof *g_threads); __CPROVER_assume(g_pool && g_tasks && g_threads);
    g_pool->tasks = g_tasks; g_pool->threads = g_threads; g_tasks->len = vin_ntasks; g_threads->len = vin_nthreads;
    g_pool->shutdown = (thpool_shutdown_t)vin_shutdown; g_pool->init_state = (thpool_inited_t)vin_init_state; g_pool->flags = (m_thpool_flags)vin_pflags; g_pool->max_threads = vin_max_threads;
    g_pool->running_tasks = vin_running;
    g_lock_held = false; g_lock_ret = vin_lock_ret; g_addthr_ret = vin_addthr_ret;
}
#ifdef V_POOL_ADD
void h_pool_add(void) {
    build_pool();
    int r = m_thpool_add(vin_null_pool ? NULL : g_pool, vin_null_task ? NULL : v_task, &g);
    V_COVER("add-ok", r == 0 && !vin_null_pool); V_COVER("add-lazy-spawn-ok", r == 0 && g.addthr_calls == 1); V_COVER("add-lazy-spawn-fails", r != 0 && g.addthr_calls == 1);
    V_COVER("add-shutdown", r == -EPERM); V_COVER("add-lock-fails", r != 0 && g.lock_calls == 1 && g.addthr_calls == 0 && !vin_null_pool);
    V_CANARY();
}
#endif
#ifdef V_POOL_LEN
void h_pool_length(void) {
    build_pool();
    ssize_t r = m_thpool_length(vin_null_pool ? NULL : g_pool);
    V_COVER("len-ok", r >= 0 && !vin_null_pool); V_COVER("len-refused", r == -EPERM); V_CANARY();
}
#endif
#ifdef V_POOL_SPAWN
/* DFCC does not allow allocation / release inside a loop that carries a loop contract: the thread slots are handed out from one static object and only counted
 * (that a slot is requested per attempt and given back exactly when the attempt failed is what is checked) */
/* the k-th slot request of the call (0-based) fails iff k == g_oom_at */
static void *v_calloc_count(size_t n, size_t sz) { (void)n; (void)sz; bool oom = g_alloc_calls - g_ac0 == g_oom_at; g_alloc_calls++; if (oom) return NULL; g_last_alloc = &g_thslot; return &g_thslot; }
static void v_free_count2(void *p) { if (g_free_calls == 0) g_free_arg0 = p; g_free_calls++; g_free_arg = p; }
void h_pool_spawn(void) {
    build_pool(); memhook._calloc = v_calloc_count; memhook._free = v_free_count2;
    V_ASSUME(vin_max_threads + vin_nthreads < 256 && vin_addthr_ret > 0);
    g_fail_at = vin_ntasks; g_oom_at = vin_running; g_create_err = vin_addthr_ret; g_oom_mask = 0;
    g_c0 = g.create_calls; g_l0 = g_threads->len; g_fc0 = g_free_calls; g_ac0 = g_alloc_calls; g_li0 = g.linsert_calls;
    int r = add_threads(g_pool, vin_max_threads);
    V_COVER("spawn-all-of-many", r == 0 && vin_max_threads == 200 && g_threads->len == vin_nthreads + 200); V_COVER("spawn-third-fails", r != 0 && vin_ntasks == 2 && vin_max_threads == 5 && g_threads->len == vin_nthreads + 2);
    V_COVER("spawn-none", vin_max_threads == 0); V_COVER("spawn-second-slot-unavailable", r == ENOMEM && vin_running == 1 && vin_max_threads == 4 && vin_ntasks > 1 && g_threads->len == vin_nthreads + 1); V_COVER("spawn-detached", (vin_pflags & M_THPOOL_DETACHED) && r == 0 && vin_max_threads == 1);
    V_CANARY();
}
#endif
#ifdef V_POOL_NEW
void h_pool_new(void) {
    build_pool();
    V_ASSUME(vin_shutdown <= 2);
    g_fail_stage = vin_init_state % 6; g_oom_mask = vin_running & 1;
    m_thpool_t *p = m_thpool_new(vin_max_threads, (m_thpool_flags)vin_pflags);
    V_COVER("new-ok-eager", p != NULL && !(vin_pflags & M_THPOOL_LAZY) && g.addthr_calls == 1); V_COVER("new-ok-lazy", p != NULL && (vin_pflags & M_THPOOL_LAZY)); V_COVER("new-zero-threads", p == NULL && vin_max_threads == 0);
    V_COVER("new-mutex-fails", p == NULL && g_fail_stage == 3 && g.tpfree_calls == 1); V_COVER("new-spawn-fails", p == NULL && g_fail_stage == 5); V_COVER("new-oom", p == NULL && (vin_running & 1) && vin_max_threads > 0);
    V_CANARY();
}
#endif
#ifdef V_POOL_FREE
void h_pool_free(void) {
    build_pool();
    V_ASSUME(vin_addthr_ret >= 0);
    g_wait_ret = vin_addthr_ret; g_poolref = vin_null_task ? NULL : g_pool; g_fc0 = g_free_calls;
    uint32_t st = vin_init_state; V_ASSUME(st == 0 || st == 1 || st == 3 || st == 7 || st == 0xf || st == 0x1f);
    int r = m_thpool_free(vin_null_pool ? NULL : &g_poolref, vin_running & 1);
    V_COVER("free-started-wait-all", r == 0 && st == 0x1f && (vin_running & 1) && g.waitpool_calls == 1); V_COVER("free-half-initialised", r == 0 && st == 3); V_COVER("free-null", r == -EINVAL);
    V_COVER("free-wait-fails", st == 0x1f && vin_addthr_ret != 0 && r == 0);
    V_CANARY();
}
#endif
#ifdef V_POOL_CLEAR
void h_pool_clear(void) {
    build_pool();
    ssize_t r = m_thpool_clear(vin_null_pool ? NULL : g_pool);
    V_COVER("clear-ok", r == 0 && vin_ntasks == 5 && g.qclear_calls == 1); V_COVER("clear-refused", r == -EPERM); V_COVER("clear-lock-fails", g.lock_calls == 1 && g.qclear_calls == 0);
    V_CANARY();
}
#endif
#ifdef V_POOL_WORKER
/* task records come out of the abstract queue as fresh objects of a replaced contract; DFCC does not let the loop release those, so the
 * release is only counted here (that each record is handed to the allocator exactly once is what is checked) */
static void v_free_count(void *p) { if (g_free_calls == 0) g_free_arg0 = p; g_free_calls++; g_free_arg = p; }
void h_pool_worker(void) {
    build_pool(); memhook._free = v_free_count;
    g_task_rec = malloc(sizeof *g_task_rec); __CPROVER_assume(g_task_rec != NULL); g_task_rec->fn = v_task; g_task_rec->arg = &g; g_task_arg = &g;
    g_lock_ret = 0;
    g_tc0 = g.task_calls; g_dq0 = g.deq_calls; g_fc0 = g_free_calls;
    m_thpool_task keep = v_task; (void)keep;
    thpool_thread(g_pool);
    /* the worker returned: it was told to shut down, it does not hold the mutex, and it left pending work alone unless asked to finish it */
    V_CHECK("C06.worker-exits-only-on-shutdown", g_pool->shutdown != SHUTDOWN_NO);
    V_CHECK("C06.mutex-released-on-every-path", !g_lock_held);
    V_CHECK("C06.wait-all-worker-leaves-only-with-empty-queue", g_pool->shutdown != SHUTDOWN_WAITALL || g_tasks->len == 0);
    V_CHECK("C06.each-dequeued-task-ran-exactly-once-and-was-released-once", g.task_calls == g_tc0 + (g.deq_calls - g_dq0) && g_free_calls == g_fc0 + (g.deq_calls - g_dq0));
    V_COVER("worker-exit-waitcurr-with-pending", g_pool->shutdown == SHUTDOWN_WAITCURR && g_tasks->len > 0); V_COVER("worker-exit-waitall", g_pool->shutdown == SHUTDOWN_WAITALL);
    V_CANARY();
}
#endif
#ifdef V_POOL_WAIT
void h_wait_pool(void) {
    build_pool();
    g_lit = malloc(sizeof *g_lit); __CPROVER_assume(g_lit != NULL); g_lit->l = NULL; g_lit->idx = 0;
    g_j0 = g.join_calls;
#ifdef V_KF_C06_DETACHED_NOT_WAITED    /* known finding: exclude detached pools */
    V_ASSUME(!(g_pool->flags & M_THPOOL_DETACHED));
#endif
    int r = wait_pool(g_pool, (vin_running & 1) ? SHUTDOWN_WAITALL : SHUTDOWN_WAITCURR);
    V_COVER("wait-joins-many", r == 0 && vin_nthreads == 17); V_COVER("wait-no-threads", r == 0 && vin_nthreads == 0); V_COVER("wait-lock-fails", r != 0);
    V_CANARY();
}
#endif
