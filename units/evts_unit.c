/* Proof units over Lib/core/evts.c. */
/* loop contract of the stash -> delivery-queue move in m_mod_unstash() (anchor M_VERIF_LOOP(unstash)).  Ghost facts:
 * g_S0 = number of stashed events at entry, g_enq0/g_ref0/g_rm0/g_get0/g_cb0 = log counters at entry.  At the loop head m_idx
 * events have been moved: each one taken at the HEAD of the stash (iterator position 0 => oldest first, stash order),
 * referenced once, appended once to the delivery queue and removed once from the stash. */
#ifdef V_UNSTASH_LOOPCONTRACT
#define M_VERIF_LOOPSPEC_unstash \
    __CPROVER_assigns(m_idx, m_itr, g.enq_calls, g.enq_arg, g.enq_q, g.ref_calls, g.ref_arg, g.itr_rm_calls, g.itr_get_calls, g.itr_nonhead, g.itr_elem, g_qit->q, g_qit->idx, g_qit->removed, g_stashq->len, g_stashq->first, g_stashq->last, unstashed->len, unstashed->first, unstashed->last, \
                      g_free_calls, g_free_arg, g_free_arg0) \
    __CPROVER_loop_invariant(m_idx <= g_S0 && g_stashq->len == g_S0 - m_idx && unstashed->len == m_idx && unstashed == g.qnew_ret) \
    __CPROVER_loop_invariant(g.enq_calls == g_enq0 + m_idx && g.ref_calls == g_ref0 + m_idx && g.itr_rm_calls == g_rm0 + m_idx && g.itr_get_calls == g_get0 + m_idx) \
    __CPROVER_loop_invariant(!g.itr_nonhead && (m_idx == 0 || g.enq_q == unstashed)) \
    __CPROVER_loop_invariant((m_itr == NULL) == (g_stashq->len == 0)) \
    __CPROVER_loop_invariant(m_itr == NULL || (m_itr == g_qit && g_qit->q == g_stashq && g_qit->idx == 0 && !g_qit->removed)) \
    __CPROVER_loop_invariant(g.cb_calls == g_cb0 && g_mod->stashed == g_stashq) \
    __CPROVER_decreases(g_stashq->len)
#endif
#ifndef V_KSTASH
#define V_KSTASH 4
#endif
#include "vmodel.h"
size_t g_S0, g_enq0, g_ref0, g_rm0, g_get0, g_cb0;
#include "core/evts.c"            /* the real translation unit, unmodified */
static ev_src_t *g_src; static evt_priv_t *g_evt;
#include "abs.contracts.h"
#include "evts.contracts.h"

#define H_INPUTS(X) V_MOD_INPUTS(X) X(uint8_t, null_mod) X(uint8_t, null_arg) X(uint8_t, has_src) X(uint32_t, sflags) X(uint64_t, len)
V_DEFINE_INPUTS(H_INPUTS)
#include "vbuild.h"

void h_become(void) {
    build();
    int r = m_mod_become(vin_null_mod ? NULL : g_mod, vin_null_arg ? NULL : v_become_evt);
    V_COVER("become-ok", r == 0); V_COVER("become-eagain", r == -EAGAIN); V_COVER("become-not-running", r == -EACCES && vin_state == M_MOD_PAUSED);
    V_COVER("become-foreign", r == -EPERM); V_COVER("become-zombie", r == -EACCES && vin_state == M_MOD_ZOMBIE);
    V_CANARY();
}
void h_unbecome(void) {
    build();
    int r = m_mod_unbecome(vin_null_mod ? NULL : g_mod);
    V_COVER("unbecome-ok", r == 0); V_COVER("unbecome-empty", r == -EINVAL && !vin_null_mod); V_COVER("unbecome-eagain", r == -EAGAIN);
    V_CANARY();
}
void h_stash(void) {
    build();
    V_ASSUME(vin_stashq_len < ((uint64_t)1 << 58));
    g_evt = malloc(sizeof *g_evt); __CPROVER_assume(g_evt != NULL);
    if (vin_has_src) { g_src = malloc(sizeof *g_src); __CPROVER_assume(g_src != NULL); g_src->flags = (m_src_flags)vin_sflags; } else g_src = NULL;
    g_evt->src = g_src;
    int r = m_mod_stash(vin_null_mod ? NULL : g_mod, vin_null_arg ? NULL : &g_evt->evt);
    V_COVER("stash-ok", r == 0); V_COVER("stash-high", r == -EPERM && vin_mctx_kind == 0); V_COVER("stash-nosrc", r == 0 && !vin_has_src); V_COVER("stash-paused", r == -EACCES);
    V_CANARY();
}
void h_unstash(void) {
    build();
#ifdef V_UNSTASH_LOOPCONTRACT
    V_ASSUME(vin_stashq_len < ((uint64_t)1 << 58));
#else
    V_ASSUME(vin_stashq_len <= V_KSTASH);
#endif
    g_S0 = g_stashq->len; g_enq0 = g.enq_calls; g_ref0 = g.ref_calls; g_rm0 = g.itr_rm_calls; g_get0 = g.itr_get_calls; g_cb0 = g.cb_calls;
    ssize_t r = m_mod_unstash(vin_null_mod ? NULL : g_mod, vin_len);
    V_COVER("unstash-all", r > 0 && (uint64_t)r == vin_stashq_len && vin_len > vin_stashq_len); V_COVER("unstash-some", r == 2 && vin_stashq_len >= 3);
    V_COVER("unstash-one", r == 1 && vin_len == 1); V_COVER("unstash-none-stashed", r == 0 && vin_stashq_len == 0); V_COVER("unstash-refused", r < 0 && !vin_null_mod);
    V_CANARY();
}
void h_new_evt(void) {
    build();
    if (vin_has_src) { g_src = malloc(sizeof *g_src); __CPROVER_assume(g_src != NULL); g_src->flags = (m_src_flags)vin_sflags; g_src->type = M_SRC_TYPE_TMR; } else g_src = NULL;
    g_alloc_fails = false;      /* allocation failure is not modelled in the core units */
    evt_priv_t *e = new_evt(g_src);
    V_COVER("newevt-with-src", e != NULL && g_src != NULL); V_COVER("newevt-no-subscription", e != NULL && g_src == NULL);
    V_CANARY();
}
void h_set_batch_size(void) {
    build();
    int r = m_mod_set_batch_size(vin_null_mod ? NULL : g_mod, vin_len);
    V_COVER("bs-ok", r == 0 && vin_state == M_MOD_IDLE); V_COVER("bs-eagain", r == -EAGAIN); V_COVER("bs-zombie", r == -EACCES);
    V_CANARY();
}

#ifdef V_BT_UNIT
void h_set_batch_timeout(void) {
    build();
    g_regtmr_ret = -(int)(vin_len % 200); g_mod->batch.timer.ns = vin_action_ctr; g_mod->batch.len = vin_batch_len;
    int r = m_mod_set_batch_timeout(vin_null_mod ? NULL : g_mod, vin_sent_msgs);
    V_COVER("bt-first-time", r == 0 && vin_action_ctr == 0 && vin_sent_msgs == 1000 && vin_batch_len == 0); V_COVER("bt-reconfigure", g.deregtmr_calls == 1 && g.regtmr_calls == 1);
    V_COVER("bt-off-after-time-only-batching", r == 0 && vin_sent_msgs == 0 && vin_batch_len == SIZE_MAX && vin_action_ctr != 0); V_COVER("bt-off-with-size", r == 0 && vin_sent_msgs == 0 && vin_batch_len == 5);
    V_CANARY();
}
#endif
/* keeps the symbols of callee contracts that the current code does not call (a replaced callee must exist in the goto model);
 * they are in the replace lists so that a change which starts calling them is still analysed instead of ending "undecided" */
void v_keep_symbols(void) { (void)m_stack_peek(NULL); (void)m_stack_len(NULL); }
