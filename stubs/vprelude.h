/* vprelude.h -- dual-mode (CBMC / native replay) verification prelude.
 *
 * V_CBMC   : compiled by goto-cc; contracts are real CBMC code contracts, inputs are nondeterministic.
 * V_NATIVE : compiled by gcc + ASan/UBSan against the same /repo sources; inputs come from a replay
 *            file (env V_REPLAY, lines "name value"), contracts are checked by generated wrappers
 *            (lib/gen_native.py) and V_CHECK is a runtime check.
 */
#ifndef VPRELUDE_H
#define VPRELUDE_H
#include <stddef.h>
#include <stdint.h>
#include <stdbool.h>
#include <stdlib.h>
#include <string.h>

#if !defined(V_CBMC) && !defined(V_NATIVE)
#error "define V_CBMC or V_NATIVE"
#endif

#define V_STR2(x) #x
#define V_STR(x) V_STR2(x)

#ifdef V_CBMC
/* ---- contract vocabulary ------------------------------------------------------------------ */
#  define V_CONTRACT
#  define V_REQUIRES(...)   __CPROVER_requires(__VA_ARGS__)
#  define V_ENSURES(...)    __CPROVER_ensures(__VA_ARGS__)
#  define V_ASSIGNS(...)    __CPROVER_assigns(__VA_ARGS__)
#  define V_FREES(...)      __CPROVER_frees(__VA_ARGS__)
#  define V_OLD(e)          __CPROVER_old(e)
#  define V_RET             __CPROVER_return_value
#  define V_RW_OK(p, n)     __CPROVER_rw_ok((p), (n))
#  define V_R_OK(p, n)      __CPROVER_r_ok((p), (n))
#  define V_OFFSET(p)       __CPROVER_POINTER_OFFSET(p)
#  define V_OBJECT_SIZE(p)  __CPROVER_OBJECT_SIZE(p)
#  define V_SAME_OBJECT(a,b) __CPROVER_same_object((a), (b))
/* allocator objects are max-aligned (assumption A-alloc): alignment == offset alignment */
#  define V_ALIGNED(p, a)   (__CPROVER_POINTER_OFFSET(p) % (a) == 0)
/* ---- harness vocabulary -------------------------------------------------------------------- */
#  define V_CHECK(tag, cond)   __CPROVER_assert((cond), tag)
#  define V_ASSUME(cond)       __CPROVER_assume(cond)
/* reachability: the negation is asserted and MUST FAIL (driver treats V_COVER:* FAILURE as success) */
#  define V_COVER(tag, cond)   __CPROVER_assert(!(cond), "V_COVER:" tag)
#  define V_CANARY()           __CPROVER_assert(0, "V_CANARY")
#  define V_IN_DECL(type, name) type vin_##name;
#  define V_IN_INIT(type, name) { type v_tmp_##name; vin_##name = v_tmp_##name; }
#  define V_INVALID_PTR(T)     ((T)v_invalid_ptr())
/* a non-NULL pointer that must never be dereferenced: a released object (any access fails pointer-check) */
static void *v_invalid_obj;
static inline void *v_invalid_ptr(void) { if (!v_invalid_obj) { v_invalid_obj = malloc(1); __CPROVER_assume(v_invalid_obj != NULL); free(v_invalid_obj); } return v_invalid_obj; }
#else
/* ---- native ---------------------------------------------------------------------------------- */
#  include <stdio.h>
#  include <sanitizer/asan_interface.h>
#  define V_CONTRACT
#  define V_RW_OK(p, n)     ((p) != NULL && __asan_region_is_poisoned((void *)(p), (n)) == NULL)
#  define V_R_OK(p, n)      V_RW_OK(p, n)
#  define V_SAME_OBJECT(a,b) (1)
#  define V_ALIGNED(p, a)   (((uintptr_t)(p)) % (a) == 0)
extern int v_native_failed;
void v_native_fail(const char *tag, const char *what);
uint64_t v_native_in(const char *name);
#  define V_CHECK(tag, cond)   do { if (!(cond)) v_native_fail(tag, #cond); } while (0)
#  define V_ASSUME(cond)       do { if (!(cond)) { fprintf(stderr, "V_ASSUME not satisfied: %s\n", #cond); exit(3); } } while (0)
#  define V_COVER(tag, cond)   do { (void)(cond); } while (0)
#  define V_CANARY()           do { } while (0)
#  define V_IN_DECL(type, name) type vin_##name;
#  define V_IN_INIT(type, name) vin_##name = (type)v_native_in(#name);
#  define V_INVALID_PTR(T)     ((T)v_invalid_ptr())
void *v_invalid_ptr(void);
#endif

/* Inputs of a harness: X-macro list  #define H_INPUTS(X) X(uint64_t,len) X(uint8_t,kase) ...  */
#define V_DEFINE_INPUTS(LIST) LIST(V_IN_DECL) static void v_inputs_init(void) { LIST(V_IN_INIT) }

#define V_IN_INIT2(type, name) V_IN_INIT(type, name)
#define V_DEFINE_INPUTS_2(LIST) LIST(V_IN_DECL) static void v_inputs2_init(void) { LIST(V_IN_INIT) }
#define V_IMP(a, b) (!(a) || (b))

#endif

/* call through the contract: CBMC instruments the function itself; natively a generated wrapper checks it */
#ifdef V_CBMC
#  define VC(f) f
#else
#  define VC(f) v_wrap_##f
#endif
