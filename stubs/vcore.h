/* vcore.h -- prelude of the core proof units: system headers first, then external names are renamed to v_* stubs
 * (DESIGN.md 2.2: preprocessor-level substitutions are limited to names of external functions and errno), then the
 * core's own headers.  The unit includes the real Lib/core/*.c file(s) it needs AFTER this header. */
#ifndef VCORE_H
#define VCORE_H
#include "vbase.h"
#include <stdlib.h>
#include <string.h>
#include <stdarg.h>
#include <stdio.h>
#include <inttypes.h>
#include <unistd.h>
#include <fcntl.h>
#include <errno.h>
#include <regex.h>
#include <dlfcn.h>
#include <time.h>
#include <signal.h>
#include <pthread.h>
#include <limits.h>
#include <sys/types.h>
#include <sys/epoll.h>
#include <sys/signalfd.h>
#include <sys/timerfd.h>
#include <sys/inotify.h>
#include <sys/eventfd.h>
#include <sys/syscall.h>
#include <linux/version.h>

#ifdef V_CBMC   /* natively (replay builds) the real libc / kernel is used */
/* errno -> ghost global (so that "every errno value a callback may leave behind" is an ordinary symbolic int) */
int g_errno;
#undef errno
#define errno g_errno

/* ---- external functions: renamed, bodies/contracts per unit (only those a unit reaches need a body) ------------- */
#define close            v_close
#define read             v_read
#define write            v_write
#define pipe             v_pipe
#define dup              v_dup
#define fcntl            v_fcntl
#define epoll_create1    v_epoll_create1
#define epoll_ctl        v_epoll_ctl
#define epoll_wait       v_epoll_wait
#define timerfd_create   v_timerfd_create
#define timerfd_settime  v_timerfd_settime
#define signalfd         v_signalfd
#define sigprocmask      v_sigprocmask
#undef sigemptyset
#undef sigaddset
#define sigemptyset      v_sigemptyset
#define sigaddset        v_sigaddset
#define inotify_init1    v_inotify_init1
#define inotify_add_watch v_inotify_add_watch
#define eventfd          v_eventfd
#define syscall          v_syscall
#define regcomp          v_regcomp
#define regexec          v_regexec
#define regfree          v_regfree
#define dlopen           v_dlopen
#define dlsym            v_dlsym
#define dlclose          v_dlclose
#define dlerror          v_dlerror
#define strerror         v_strerror
#define strcmp           v_strcmp
#define strncmp          v_strncmp
#define strlen           v_strlen
#define pthread_key_create   v_pthread_key_create
#define pthread_once         v_pthread_once
#define pthread_getspecific  v_pthread_getspecific
#define pthread_setspecific  v_pthread_setspecific
#define clock_gettime    v_clock_gettime
#define printf           v_printf
#define vprintf          v_vprintf

int v_close(int fd);
ssize_t v_read(int fd, void *buf, size_t n);
ssize_t v_write(int fd, const void *buf, size_t n);
int v_pipe(int fds[2]);
int v_dup(int fd);
int v_fcntl(int fd, int cmd, ...);
int v_epoll_create1(int flags);
int v_epoll_ctl(int epfd, int op, int fd, struct epoll_event *ev);
int v_epoll_wait(int epfd, struct epoll_event *evs, int maxevents, int timeout);
int v_timerfd_create(int clockid, int flags);
int v_timerfd_settime(int fd, int flags, const struct itimerspec *n, struct itimerspec *o);
int v_signalfd(int fd, const sigset_t *mask, int flags);
int v_sigprocmask(int how, const sigset_t *set, sigset_t *old);
static inline int v_sigemptyset(sigset_t *s) { (void)s; return 0; }
static inline int v_sigaddset(sigset_t *s, int n) { (void)s; (void)n; return 0; }
int v_inotify_init1(int flags);
int v_inotify_add_watch(int fd, const char *path, uint32_t mask);
int v_eventfd(unsigned int initval, int flags);
long v_syscall(long nr, ...);
int v_regcomp(regex_t *preg, const char *regex, int cflags);
int v_regexec(const regex_t *preg, const char *string, size_t nmatch, regmatch_t pmatch[], int eflags);
void v_regfree(regex_t *preg);
void *v_dlopen(const char *file, int mode);
void *v_dlsym(void *h, const char *name);
int v_dlclose(void *h);
char *v_dlerror(void);
char *v_strerror(int e);
int v_strcmp(const char *a, const char *b);
int v_strncmp(const char *a, const char *b, size_t n);
size_t v_strlen(const char *s);
int v_pthread_key_create(pthread_key_t *key, void (*d)(void *));
int v_pthread_once(pthread_once_t *once, void (*f)(void));
void *v_pthread_getspecific(pthread_key_t key);
int v_pthread_setspecific(pthread_key_t key, const void *v);
int v_clock_gettime(clockid_t id, struct timespec *ts);
int v_printf(const char *fmt, ...);
int v_vprintf(const char *fmt, va_list ap);

#endif /* V_CBMC */

/* the core's private headers (types of m_mod_t, m_ctx_t, ev_src_t, ...) */
#include "ps.h"
#include "src.h"
#include "fs.h"
#include "ctx.h"
#include "poll.h"
#include "evts.h"

#endif
