/* loopspecs.h -- loop contracts for the M_VERIF_LOOP(<name>) anchors in /repo (force-included by the driver).
 * A unit defines the spec of the loop it closes BEFORE including the real source; every other anchor is empty. */
#ifndef M_VERIF_LOOPSPEC_unstash
#define M_VERIF_LOOPSPEC_unstash
#endif
#ifndef M_VERIF_LOOPSPEC_ctx_recv
#define M_VERIF_LOOPSPEC_ctx_recv
#endif
#ifndef M_VERIF_LOOPSPEC_ctx_loop
#define M_VERIF_LOOPSPEC_ctx_loop
#endif
#ifndef M_VERIF_LOOPSPEC_ps_fetch
#define M_VERIF_LOOPSPEC_ps_fetch
#endif
#ifndef M_VERIF_LOOPSPEC_ps_tellsubs
#define M_VERIF_LOOPSPEC_ps_tellsubs
#endif
#ifndef M_VERIF_LOOPSPEC_ps_flush
#define M_VERIF_LOOPSPEC_ps_flush
#endif
#ifndef M_VERIF_LOOPSPEC_mod_srcs
#define M_VERIF_LOOPSPEC_mod_srcs
#endif
#ifndef M_VERIF_LOOPSPEC_map_find
#define M_VERIF_LOOPSPEC_map_find
#endif
#ifndef M_VERIF_LOOPSPEC_map_shift
#define M_VERIF_LOOPSPEC_map_shift
#endif
#ifndef M_VERIF_LOOPSPEC_map_itr_scan
#define M_VERIF_LOOPSPEC_map_itr_scan
#endif
#ifndef M_VERIF_LOOPSPEC_pool_worker
#define M_VERIF_LOOPSPEC_pool_worker
#endif
#ifndef M_VERIF_LOOPSPEC_pool_wait
#define M_VERIF_LOOPSPEC_pool_wait
#endif
#ifndef M_VERIF_LOOPSPEC_pool_join
#define M_VERIF_LOOPSPEC_pool_join
#endif
#ifndef M_VERIF_LOOPSPEC_pool_spawn
#define M_VERIF_LOOPSPEC_pool_spawn
#endif
#ifndef M_VERIF_LOOPSPEC_mod_kinds
#define M_VERIF_LOOPSPEC_mod_kinds
#endif
#ifndef M_VERIF_LOOPSPEC_len_subs
#define M_VERIF_LOOPSPEC_len_subs
#endif
#ifndef M_VERIF_LOOPSPEC_len_kinds
#define M_VERIF_LOOPSPEC_len_kinds
#endif
#ifndef M_VERIF_LOOPSPEC_len_srcs
#define M_VERIF_LOOPSPEC_len_srcs
#endif
