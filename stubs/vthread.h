/* vthread.h -- pthread primitives as contracts over a ghost lock word (DESIGN.md 2.4): sequentialisation of other threads' interference:
 * acquiring the mutex and waiting on the condition variable HAVOC every field the pool documents as "behind the mutex" (shutdown flag,
 * task queue, thread list), so what is proved about one thread's step holds whatever the other threads did in between. */
#ifndef VTHREAD_H
#define VTHREAD_H
#include <pthread.h>
#define pthread_mutex_lock     v_mutex_lock
#define pthread_mutex_unlock   v_mutex_unlock
#define pthread_mutex_init     v_mutex_init
#define pthread_mutex_destroy  v_mutex_destroy
#define pthread_cond_wait      v_cond_wait
#define pthread_cond_signal    v_cond_signal
#define pthread_cond_broadcast v_cond_broadcast
#define pthread_cond_init      v_cond_init
#define pthread_cond_destroy   v_cond_destroy
#define pthread_create         v_thread_create
#define pthread_join           v_thread_join
#define pthread_attr_init      v_attr_init
#define pthread_attr_destroy   v_attr_destroy
#define pthread_attr_setdetachstate v_attr_setdetachstate
int v_mutex_lock(pthread_mutex_t *m); int v_mutex_unlock(pthread_mutex_t *m); int v_mutex_init(pthread_mutex_t *m, const pthread_mutexattr_t *a); int v_mutex_destroy(pthread_mutex_t *m);
int v_cond_wait(pthread_cond_t *c, pthread_mutex_t *m); int v_cond_signal(pthread_cond_t *c); int v_cond_broadcast(pthread_cond_t *c);
int v_cond_init(pthread_cond_t *c, const pthread_condattr_t *a); int v_cond_destroy(pthread_cond_t *c);
int v_thread_create(pthread_t *t, const pthread_attr_t *a, void *(*f)(void *), void *arg); int v_thread_join(pthread_t t, void **r);
int v_attr_init(pthread_attr_t *a); int v_attr_destroy(pthread_attr_t *a); int v_attr_setdetachstate(pthread_attr_t *a, int d);
#endif
