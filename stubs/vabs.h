/* vabs.h -- abstract (ghost) view of everything a core function calls outside its own translation unit:
 * ref-counted memory, containers, other core files, poll plugin, user callbacks.  The core only handles opaque
 * container pointers, so the units define the container structs themselves as ghost records; each external function
 * gets a CONTRACT over these records and over the ghost log `g` (contracts/abs.contracts.h) and is used through
 * goto-instrument --replace-call-with-contract: a caller is checked against the callee's contract, never its body.
 * The concrete container contracts (units/queue.c, ...) are the justification of the abstract ones (same facts,
 * projected on len / first / last), see DESIGN.md 5.4. */
#ifndef VABS_H
#define VABS_H
#include "vcore.h"

struct _queue { size_t len; void *first; void *last; };
struct _stack { size_t len; void *top; };
struct _list  { size_t len; };
struct _bst   { size_t len; size_t internal; };   /* internal: number of M_SRC_INTERNAL sources in it */
struct _map   { size_t len; size_t internal; };
struct _queue_itr { m_queue_t *q; size_t idx; bool removed; };
struct _bst_itr   { m_bst_t *t; size_t idx; bool removed; };
struct _map_itr   { m_map_t *m; size_t idx; };
struct _list_itr  { m_list_t *l; size_t idx; };

/* ghost log: every abstract callee records what it was asked to do; postconditions of the functions under proof are
 * stated over this log ("called exactly once, with this argument") */
typedef struct {
    size_t unref_calls;  void *unref_arg;  void *unref_arg_prev;
    size_t ref_calls;    void *ref_arg;
    size_t enq_calls;    void *enq_arg;    m_queue_t *enq_q;
    size_t qnew_calls;   m_queue_t *qnew_ret;
    size_t qfree_calls;  m_queue_t *qfree_arg; size_t qfree_at_unref;
    size_t cb_calls;     m_mod_t *cb_mod;  m_queue_t *cb_q;  size_t cb_qlen;      /* call_pubsub_cb */
    size_t evt_cb_calls; m_mod_t *evt_cb_mod; const m_queue_t *evt_cb_q; int evt_cb_which;   /* user on_evt-type callbacks: which = 0 hook.on_evt, 1 become'd */
    size_t push_calls;   void *push_arg;   size_t pop_calls;
    size_t fetch_calls;
    size_t sys_msgs;     const char *sys_topic; m_mod_t *sys_sender;             /* tell_system_pubsub_msg */
    size_t on_start_calls, on_stop_calls, on_eval_calls;
    size_t start_calls, stop_calls, stop_at_push;  bool stop_arg;
    size_t close_calls;  int close_arg;
    size_t ips_calls, ms_calls, reset_calls, hook_calls; int ms_flag; bool ms_stop; int hook_req; size_t srcs_dropped;
    int sys_kind; size_t sys_started, sys_stopped, sys_ctx_started, sys_ctx_stopped, sys_tick, sys_pill;
    size_t memnew_calls; void *memnew_ret; size_t write_calls; int write_fd; void *write_ptr; size_t pipe_len; size_t read_calls;
    size_t deregtmr_calls, regtmr_calls; const m_src_tmr_t *deregtmr_arg, *regtmr_arg; uint64_t deregtmr_ns, regtmr_ns; m_src_flags regtmr_flags; const void *regtmr_up;
    size_t dereg_calls, dereg_at_memnew, initsrc_calls, mapput_calls; void *mapput_val; size_t ctxsrc_dereg_calls, ctxsrc_reg_calls; bool ctxsrc_dereg_had; uint64_t ctxsrc_reg_ns; int ctxsrc_reg_type;
    size_t bstins_calls, bstrm_calls, starttask_calls, createsrc_calls, strdup_calls; void *bstins_arg; int bstrm_fd; uint64_t bstrm_ns; unsigned bstrm_signo; pid_t bstrm_pid; m_src_flags createsrc_flags; int createsrc_type; const void *createsrc_up;
    size_t loopstart_calls, loopstop_calls, recvdrv_calls; int recvdrv_timeout, loopstart_max; bool loopstop_cond, recvdrv_cond;
    size_t mit_freed, modis_calls, elig_count, fetchsub_calls, hits, tellif_calls, regexec_calls; int modis_mask;
    size_t regcomp_calls, mapnew_calls, subsdtor_calls; const void *map_key; const char *freed_topic;
    size_t tellsubs_calls; const void *route_key, *route_to, *route_sender, *route_data; const char *route_topic; bool route_system;
    size_t visited, visited_user, mapfree_calls, pollcreate_calls, fscreate_calls, polldestroy_calls, ctxsrc_dereg_at_polldestroy;
    bool quit_at_iter; uint8_t quitcode_at_iter;
    size_t eval_passes, flush_calls, sys_at_flush, pollinit_calls, pollclear_calls, tick_poll_calls, tick_reads, thpool_free_calls; int tick_poll_flag;
    ev_src_t *newevt_src; size_t tls_set_calls, ctxnew_calls; size_t mapclear_calls, fd_opened, epoll_calls, pollrm_calls; int epoll_op, epoll_fd;
    size_t pw_calls, recv_calls, newevt_calls, process_calls, pushevt_calls, iterate_calls;
    size_t maprm_calls, ctxdereg_calls, fscleanup_calls, unrefp_calls; bool start_arg;
    size_t itr_get_calls, itr_rm_calls; bool itr_nonhead;      /* iterator accesses; nonhead: some access was not at position 0 */
    void *itr_elem;                                            /* element last returned by an iterator */
} ghost_t;
ghost_t g;
size_t g_others_running;     /* number of OTHER modules of the context that are RUNNING (focus-object technique, DESIGN.md 2.6) */
bool g_alloc_fails, g_pipe_full; ps_priv_t *g_msg; ps_priv_t *g_pmsg; size_t g_P0, g_e0, g_u0, g_cb0;     /* environment of one send: allocation outcome, recipient pipe full?, the caller's message */
int g_regtmr_ret, g_pollinit_ret, g_dereg_ret, g_mapput_ret; m_mod_t *g_oldmod; ev_src_t *g_newsrc; struct _bst *g_set; bool g_key_present; int g_bstins_ret; int g_loopstart_ret, g_recvdrv_ret; uint8_t g_loopstop_ret;
bool g_entry; ev_src_t *g_oldsub; int g_regcomp_ret;
size_t g_LL[8], g_PL[9], g_v0;
void *g_ppdata; char *g_namebuf; int *g_udbuf;
struct _bst_itr *g_bit; size_t g_L0[8], g_PS[9], g_p0;
struct _map_itr *g_mit; struct _map *g_tab; const char *g_topic; bool g_exact; size_t g_match_at, g_m0, g_el0, g_f0, g_h0, g_t0, g_fr0, g_r0, g_fc0;
int g_open_fd;       /* the (single) descriptor of the focus object that is currently open and owned by the library, or -1 */
m_map_t *g_subs;
m_ctx_t *g_tls; int g_tls_set_ret, g_ctxnew_ret; bool g_dereg_allowed;      /* the calling thread's context slot */
int g_nfds, g_pw_errno; ev_src_t *g_psrc; size_t g_pe0, g_pr0;      /* one poll batch: number of ready sources, errno of poll_wait, the focus source */
int g_ips_ret, g_ms_ret, g_maprm_ret, g_ctxdereg_ret;   /* outcomes of environment-dependent callees in this pre-state */
struct _queue_itr *g_qit;     /* the (single) abstract queue iterator, allocated by the harness */
char g_elem_obj[64];          /* every element handed out by an abstract iterator aliases this object (identity is not needed) */

#endif
