/* vmodel.h -- builder of the pre-state of core units: one focus module in one context, every scalar field symbolic,
 * containers are ghost records (vabs.h).  Used by harnesses; contracts' requires clauses restate the validity part. */
#ifndef VMODEL_H
#define VMODEL_H
#include "vabs.h"

m_ctx_t *g_ctx; m_mod_t *g_mod;          /* focus context and module */
m_ctx_t *g_mctx;                         /* what m_ctx() answers on the calling thread: g_ctx, NULL, or a foreign context */
m_ctx_t g_foreign_ctx;
m_queue_t *g_batchq, *g_stashq; m_stack_t *g_recvs; m_map_t *g_modules; m_list_t *g_bound; m_bst_t *g_thresh;
m_mod_t *g_modref, *g_modref_in;          /* the user's handle passed to deregistration, and its value at entry */

#define V_MOD_INPUTS(X) X(uint8_t, state) X(uint32_t, mflags) X(uint64_t, tokens) X(uint64_t, burst) X(uint16_t, rate) X(uint64_t, batch_len) \
    X(uint64_t, batchq_len) X(uint64_t, stashq_len) X(uint64_t, recvs_len) X(uint8_t, ctx_state) X(uint64_t, running) X(uint8_t, quit) X(uint8_t, has_curr) \
    X(uint8_t, mctx_kind) X(uint32_t, cflags) X(uint8_t, finalized) X(uint64_t, action_ctr) X(uint64_t, recv_msgs) X(uint64_t, sent_msgs)

static inline bool v_state_valid(unsigned s) { return s == M_MOD_IDLE || s == M_MOD_RUNNING || s == M_MOD_PAUSED || s == M_MOD_STOPPED || s == M_MOD_ZOMBIE; }

void v_on_evt(m_mod_t *self, const m_queue_t *const evts);
void v_become_evt(m_mod_t *self, const m_queue_t *const evts);
bool v_on_start(m_mod_t *self);
bool v_on_eval(m_mod_t *self);
void v_on_stop(m_mod_t *self);

static inline m_queue_t *v_mkqueue(size_t len) {
    m_queue_t *q = malloc(sizeof *q); __CPROVER_assume(q != NULL);
    q->len = len; q->first = len ? (void *)(uintptr_t)0x10 : NULL; q->last = len ? (void *)(uintptr_t)0x20 : NULL;
    return q;
}
#endif
