/* vbase.h -- allocator hook and logger stubs shared by every unit (trusted base, see DESIGN.md 2.4).
 * Include AFTER <utils/mem.h> and <utils/log.h> are visible (i.e. after vprelude.h, before the real source). */
#ifndef VBASE_H
#define VBASE_H
#include "vprelude.h"
#include "mem.h"   /* Lib/utils/mem.h : m_memhook_t, extern memhook */
#include "log.h"   /* Lib/utils/log.h : m_logger, extern libmodule_logger */
#include "loopspecs.h"  /* defaults for every M_VERIF_LOOP anchor the unit did not define itself */

/* The library's own definition lives in Lib/utils/mem.c with initialiser {malloc,calloc,free}; taking
 * the address of CBMC's calloc model crashes goto-instrument, and --dfcc havocs statics anyway, so the
 * units define the object here and every harness installs the stubs explicitly (v_base_init). */
#ifndef V_REAL_UTILS_MEM
m_memhook_t memhook;
#endif
m_logger libmodule_logger;

/* ghost allocator log */
size_t g_alloc_calls;
size_t g_free_calls;
void  *g_free_arg;      /* last pointer handed to free */
void  *g_free_arg0;     /* first pointer handed to free since v_base_init */
void  *g_last_alloc;   /* last pointer returned by the allocator stub */
uint64_t g_oom_mask;    /* bit k set: k-th allocation (0-based, k<64) fails */

static inline bool v_oom_now(void) {
    bool fail = g_alloc_calls < 64 && ((g_oom_mask >> g_alloc_calls) & 1);
    g_alloc_calls++;
    return fail;
}
void *v_malloc(size_t n) { if (v_oom_now()) return NULL; return g_last_alloc = malloc(n); }
void *v_calloc(size_t n, size_t s) { if (v_oom_now()) return NULL; return g_last_alloc = calloc(n, s); }
void v_free(void *p) {
    if (g_free_calls == 0) g_free_arg0 = p;
    g_free_calls++;
    g_free_arg = p;
#ifndef V_FREE_COUNTS_ONLY      /* (units whose release happens inside a loop that carries a loop contract: DFCC forbids it there, the release is only recorded) */
    free(p);
#endif
}
void v_log_noop(const char *caller, int lineno, const char *fmt, ...) { (void)caller; (void)lineno; (void)fmt; }

static inline void v_base_init(void) {
    memhook._malloc = v_malloc;
    memhook._calloc = v_calloc;
    memhook._free = v_free;
    for (int i = 0; i < X_LOG_CTX_MAX; i++) {
        libmodule_logger.ERR[i] = v_log_noop;
        libmodule_logger.WARN[i] = v_log_noop;
        libmodule_logger.INFO[i] = v_log_noop;
        libmodule_logger.DEBUG[i] = v_log_noop;
    }
    g_alloc_calls = 0; g_free_calls = 0; g_free_arg = NULL; g_free_arg0 = NULL; g_oom_mask = 0; g_last_alloc = NULL;
}
/* pure predicate usable in requires clauses */
static inline bool v_base_ok(void) {
    return memhook._malloc == v_malloc && memhook._calloc == v_calloc && memhook._free == v_free
        && libmodule_logger.DEBUG[LIBMODULE_LOG_CTX] == v_log_noop
        && libmodule_logger.INFO[LIBMODULE_LOG_CTX] == v_log_noop
        && libmodule_logger.WARN[LIBMODULE_LOG_CTX] == v_log_noop
        && libmodule_logger.ERR[LIBMODULE_LOG_CTX] == v_log_noop;
}

#ifdef V_NATIVE
#include <stdio.h>
#include <sys/mman.h>
int v_native_failed;
void v_native_fail(const char *tag, const char *what) {
    fprintf(stdout, "V_CHECK FAILED %s : %s\n", tag, what);
    fflush(stdout);
    v_native_failed++;
}
void *v_invalid_ptr(void) {
    static char *page;
    if (!page) page = mmap(NULL, 1 << 16, PROT_NONE, MAP_PRIVATE | MAP_ANONYMOUS, -1, 0);
    return page + (1 << 15);
}
uint64_t v_native_in(const char *name) {
    const char *path = getenv("V_REPLAY");
    if (!path) { fprintf(stderr, "V_REPLAY not set\n"); exit(4); }
    FILE *f = fopen(path, "r");
    if (!f) { perror(path); exit(4); }
    char key[256]; unsigned long long val; uint64_t out = 0; int found = 0;
    while (fscanf(f, "%255s %llu", key, &val) == 2) {
        if (strcmp(key, name) == 0) { out = val; found = 1; }
    }
    fclose(f);
    if (!found) fprintf(stderr, "note: input %s not in replay file, using 0\n", name);
    return out;
}
#define V_NATIVE_MAIN(...) \
    typedef void (*v_harness_fn)(void); \
    int main(int argc, char **argv) { \
        static const struct { const char *n; v_harness_fn f; } tab[] = { __VA_ARGS__ }; \
        if (argc < 2) { fprintf(stderr, "usage: %s <harness>\n", argv[0]); return 4; } \
        for (size_t i = 0; i < sizeof tab / sizeof *tab; i++) \
            if (strcmp(tab[i].n, argv[1]) == 0) { tab[i].f(); \
                printf(v_native_failed ? "NATIVE-REPLAY: FAILED\n" : "NATIVE-REPLAY: passed\n"); return v_native_failed ? 1 : 0; } \
        fprintf(stderr, "no such harness %s\n", argv[1]); return 4; }
#define V_H(name) { #name, name }
#endif
#endif
