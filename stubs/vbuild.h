/* vbuild.h -- builds the focus module / context from the V_MOD_INPUTS scalars (include after V_DEFINE_INPUTS) */
static void build(void) {
    v_inputs_init(); v_base_init(); memset(&g, 0, sizeof g);
    g_ctx = malloc(sizeof *g_ctx); g_mod = malloc(sizeof *g_mod); __CPROVER_assume(g_ctx && g_mod);
    V_ASSUME(v_state_valid(vin_state) && vin_batchq_len < ((uint64_t)1 << 59) && vin_stashq_len < ((uint64_t)1 << 59) && vin_recvs_len < ((uint64_t)1 << 59));
    g_mod->state = (m_mod_states)vin_state; g_mod->flags = (m_mod_flags)vin_mflags; g_mod->ctx = g_ctx;
    g_mod->tb.tokens = vin_tokens; g_mod->tb.burst = vin_burst; g_mod->tb.rate = vin_rate;
    g_mod->batch.len = vin_batch_len;
    g_batchq = v_mkqueue(vin_batchq_len); g_mod->batch.events = g_batchq;
    g_stashq = v_mkqueue(vin_stashq_len); g_mod->stashed = g_stashq;
    g_recvs = malloc(sizeof *g_recvs); __CPROVER_assume(g_recvs != NULL); g_recvs->len = vin_recvs_len; g_recvs->top = vin_recvs_len ? (void *)v_become_evt : NULL; g_mod->recvs = g_recvs;
    g_qit = malloc(sizeof *g_qit); __CPROVER_assume(g_qit != NULL); g_qit->q = NULL; g_qit->idx = 0; g_qit->removed = false;
    g_modules = malloc(sizeof *g_modules); __CPROVER_assume(g_modules != NULL); g_modules->len = 1; g_modules->internal = 0; g_ctx->modules = g_modules;
    g_bound = malloc(sizeof *g_bound); __CPROVER_assume(g_bound != NULL); g_bound->len = 0; g_mod->bound_mods = g_bound;
    g_thresh = malloc(sizeof *g_thresh); __CPROVER_assume(g_thresh != NULL); g_thresh->len = 0; g_thresh->internal = 0; g_mod->srcs[M_SRC_TYPE_THRESH] = g_thresh;
    g_mod->hook.on_evt = v_on_evt; g_mod->hook.on_start = v_on_start; g_mod->hook.on_stop = v_on_stop; g_mod->hook.on_eval = v_on_eval;
    g_mod->name = "m"; g_mod->stats.action_ctr = vin_action_ctr; g_mod->stats.recv_msgs = vin_recv_msgs; g_mod->stats.sent_msgs = vin_sent_msgs;
    g_ctx->state = vin_ctx_state ? M_CTX_LOOPING : M_CTX_IDLE; g_ctx->stats.running_modules = vin_running; g_ctx->quit = vin_quit & 1;
    g_mctx = vin_mctx_kind == 0 ? g_ctx : (vin_mctx_kind == 1 ? NULL : &g_foreign_ctx);   /* own thread / no context on this thread / foreign thread */
    g_ctx->curr_mod = vin_has_curr ? g_mod : NULL;      /* called from outside, or re-entrantly from inside one of the module's own callbacks */ g_ctx->flags = (m_ctx_flags)vin_cflags; g_ctx->finalized = vin_finalized & 1; g_ctx->name = "c";
}

