#!/bin/bash
# usage: seedverify.sh <seed_dir_worktree> : confirms (in the scratch worktree) that the seeded change compiles, the suite passes with it,
# the demo fails with it and passes without it. prints a summary line.
W=$1; cd $W || exit 2
git checkout -q -- Lib; git apply seeded_out/patch.diff || { echo "APPLY-FAILED"; exit 2; }
[ -d _build ] || cmake -G Ninja -B _build -DBUILD_TESTS=true >/dev/null 2>&1
cmake --build _build >/dev/null 2>&1 || { echo "BUILD-FAILED with change"; git checkout -q -- Lib; exit 2; }
SUITE_WITH=$(ctest --test-dir _build -j4 2>&1 | grep -c "100% tests passed")
(cd seeded_out && bash ./demo_build.sh >/dev/null 2>&1); 
(cd seeded_out && D=$(ls -t | grep -E '^demo(\.out|_bin)?$' | head -1); [ -z "$D" ] && D=demo; LD_LIBRARY_PATH=$W/_build timeout 60 ./$D >/dev/null 2>&1; echo $? > /tmp/.rc_with)
git checkout -q -- Lib; cmake --build _build >/dev/null 2>&1
(cd seeded_out && bash ./demo_build.sh >/dev/null 2>&1; D=$(ls -t | grep -E '^demo(\.out|_bin)?$' | head -1); [ -z "$D" ] && D=demo; LD_LIBRARY_PATH=$W/_build timeout 60 ./$D >/dev/null 2>&1; echo $? > /tmp/.rc_without)
echo "suite_passes_with_change=$SUITE_WITH demo_rc_with_change=$(cat /tmp/.rc_with) demo_rc_without=$(cat /tmp/.rc_without)"
