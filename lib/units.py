"""Registry of proof units.  One unit = one harness entry point, normally one function under --enforce-contract with
its contracted callees replaced by their contracts.  `props` = properties whose untagged (safety/frame) obligations the
unit contributes to; tagged obligations (/*@Cxx.name*/) count only for the property named in the tag."""

TRUSTED_BASE = [
    "CBMC 6.11.0: C front end, goto-instrument --dfcc contract instrumentation, SAT back end (CaDiCaL), its memory model (objects+offsets), x86-64 LP64",
    "stubs in /verif/stubs (allocator forwards to CBMC's malloc/calloc/free models; logger no-op; see DESIGN.md 2.4)",
    "build configuration verified: -DNDEBUG -D_GNU_SOURCE -std=gnu11, Linux/epoll plugin, fs_noop (as the pinned _build)",
]
ASSUMPTIONS = [
    "the configured allocator returns max_align_t-aligned, non-overlapping objects (as C requires of calloc/malloc)",
    "callers respect the documented preconditions encoded in each contract's requires clause",
    "callee contracts used with --replace-call-with-contract are assumed at the call site; each is either enforced against the real callee in another unit (listed under that function's name) or "
    "abstracts a container / libc / kernel object: abstract iterators hand out every element exactly once in order (established for the real iterators by the container units, bounded for map and BST), "
    "regexec / strcmp-on-the-reserved-prefix / regcomp answer a ghost truth value, pthread primitives act on a ghost lock word, epoll/timerfd/signalfd/inotify/eventfd are ghost descriptor owners",
    "allocation failure is modelled only where a unit says so (stub failure mask); in units that replace the allocator by a contract or a counting stub (loops under a loop contract may not "
    "allocate or release under DFCC) a release is recorded, not performed",
    "units run with --no-propagation (ctx.recv_pill_real, ctx.recv_oneshot_real) work around a CBMC 6.11 simplifier bug on unions of pointers (DESIGN.md 9.2); in ps.subscribe_real memcpy of the "
    "opaque compiled pattern is skipped by a stub",
    "machine integers are bit-precise (no mathematical-integer abstraction); ghost counters are size_t and are assumed not to wrap within one call (bounded by the stated size limits in each requires clause)",
]

PROPS = {}
NOT_APPLICABLE = {}
HOOK_COMMITS = ["cc451d6", "bf01b29", "b6b3d93"]
_UNITS = []


def U(name, **kw):
    kw["name"] = name
    kw.setdefault("replace", [])
    kw.setdefault("props", [])
    _UNITS.append(kw)


def all_units():
    return list(_UNITS)


# =====================================================================================================
# C10  ref-counted blocks  (Lib/mem/mem.c) -- idiom A, full domain
# =====================================================================================================
PROPS["C10"] = {
    "level": "proof",
    "level_text": "Every function of Lib/mem/mem.c (m_mem_new/ref/unref/unrefp/size) is verified against a strongest-postcondition contract "
                  "for all arguments and all block states (any size up to 2^40, any padding, any reference count, destructor or not, NULL); "
                  "frames are checked, so histories over populations of blocks follow by induction. Loop-free code, full symbolic domain: no bound other than the size cap.",
    "level_note": "Trusted: CBMC 6.11 + its malloc/calloc/free models standing for the configured allocator (assumed to return max_align_t-aligned objects); "
                  "destructor stub records its argument and checks the block is still valid when it runs.",
    "design_ref": "DESIGN.md 4 (C10)",
    "not_decided": ["that the allocator installed through m_set_memhook returns max_align_t-aligned memory (assumed)",
                    "requested sizes above 2^40 bytes (stated bound of the contracts; the statement ranges over 0..several KiB)"],
    "explanation": "every function of Lib/mem/mem.c is verified against its contract for all arguments and all block states "
                   "(size, padding, reference count, destructor present/absent, NULL); histories follow by induction over calls "
                   "because each contract re-establishes the block representation predicate and has a checked frame.",
}
for fn in ("new", "ref", "unref", "unrefp", "size"):
    U("mem." + fn, src="units/mem.c", harness="h_mem_" + fn, enforce="m_mem_" + fn, logctx="MEM", props=["C10", "C04"],
      contract_files=["contracts/mem.contracts.h"], native=True, timeout=300, min_obligations=20, trace_defines=["V_MEM_MAX_LOG=10"])

# =====================================================================================================
# C12  queue / stack / list
# =====================================================================================================
PROPS["C12"] = {
    "level": "proof",
    "level_text": "All O(1) operations and every iterator step of queue.c, stack.c and list.c (30 functions) are verified against window contracts "
                  "that give the exact new value of every field they may touch, for queues/stacks/lists of ANY length (len fully symbolic; nodes outside "
                  "the window are unmaterialised and the checked assigns clause proves them untouched): FIFO append/remove, LIFO push/pop, splice/unlink at "
                  "first/middle/last position, tail maintenance, destructor exactly once on the dropped element and never on a returned one, exact lengths. "
                  "Cursor-walking functions (clear, free, iterate, list insert/remove/find) and the step from window contracts to the abstract sequence view "
                  "are checked as bounded stand-ins on every container of <= K nodes against an array model (labelled bounded, counted separately).",
    "level_note": "Trusted: CBMC + allocator stub; element destructor / comparator / iterate callbacks are stubs that only record their arguments "
                  "(callbacks that re-enter the container are outside the contracts). Bounded part: K=4 (quick) / 6 (thorough) nodes, unwinding assertions on. "
                  "The frame argument 'exact local transformation + untouched rest => abstract sequence equation' is written in the contract header, not machine-checked beyond K.",
    "design_ref": "DESIGN.md 4 (C12), 2.5 idiom B/D",
    "not_decided": ["callbacks (destructor, comparator, iterate callback) that modify the container they are called from",
                    "cursor walks (clear/free/iterate/list insert/remove/find) beyond K nodes: bounded stand-in only"],
    "explanation": "unbounded: code |= window contract for every O(1) operation and iterator step; bounded (K nodes): window contracts/real code |= array-model view, traversals",
}
for h, fn in (("new", "m_queue_new"), ("len", "m_queue_len"), ("enqueue", "m_queue_enqueue"), ("dequeue", "m_queue_dequeue"),
              ("peek", "m_queue_peek"), ("remove", "m_queue_remove"), ("itr_new", "m_queue_itr_new"), ("itr_next", "m_queue_itr_next"),
              ("itr_remove", "m_queue_itr_remove"), ("itr_get", "m_queue_itr_get_data"), ("itr_set", "m_queue_itr_set_data")):
    U("q." + h, src="units/queue.c", harness="h_q_" + h, enforce=fn, logctx="STRUCTS", props=["C12", "C04"],
      contract_files=["contracts/queue.contracts.h"], native=True, timeout=300, min_obligations=20)
for h in ("clear", "iterate", "walk", "ops"):
    U("qb." + h, src="units/queue.c", harness="h_qb_" + h, plain=True, logctx="STRUCTS", props=["C12", "C04"], bounded=True,
      bound_note="every queue of <= K nodes, K=4 quick / 6 thorough; loops unwound K+3 with unwinding assertions",
      defines_quick=["V_K=4"], defines_thorough=["V_K=6"], unwind=10, unwind_thorough=12, native=True,
      contract_files=["contracts/queue.contracts.h"], timeout=600, timeout_thorough=3000, min_obligations=10)
for h, fn in (("new", "m_stack_new"), ("len", "m_stack_len"), ("push", "m_stack_push"), ("pop", "m_stack_pop"),
              ("peek", "m_stack_peek"), ("remove", "m_stack_remove"), ("itr_new", "m_stack_itr_new"), ("itr_next", "m_stack_itr_next"),
              ("itr_remove", "m_stack_itr_remove"), ("itr_get", "m_stack_itr_get_data"), ("itr_set", "m_stack_itr_set_data")):
    U("s." + h, src="units/stack.c", harness="h_s_" + h, enforce=fn, logctx="STRUCTS", props=["C12", "C04"],
      contract_files=["contracts/stack.contracts.h"], native=True, timeout=300, min_obligations=20)
for h in ("clear", "iterate", "walk", "ops"):
    U("sb." + h, src="units/stack.c", harness="h_sb_" + h, plain=True, logctx="STRUCTS", props=["C12", "C04"], bounded=True,
      bound_note="every stack of <= K nodes, K=4 quick / 6 thorough; loops unwound K+6 with unwinding assertions",
      defines_quick=["V_K=4"], defines_thorough=["V_K=6"], unwind=10, unwind_thorough=12, native=True,
      contract_files=["contracts/stack.contracts.h"], timeout=600, timeout_thorough=3000, min_obligations=10)
for h, fn in (("new", "m_list_new"), ("len", "m_list_len"), ("itr_new", "m_list_itr_new"), ("itr_next", "m_list_itr_next"),
              ("itr_get", "m_list_itr_get_data"), ("itr_set", "m_list_itr_set_data"), ("itr_insert", "m_list_itr_insert"), ("itr_remove", "m_list_itr_remove")):
    U("l." + h, src="units/list.c", harness="h_l_" + h, enforce=fn, logctx="STRUCTS", props=["C12", "C04"],
      contract_files=["contracts/list.contracts.h"], native=True, timeout=300, min_obligations=20)
for h in ("clear", "insert", "remove", "iterate", "walk"):
    U("lb." + h, src="units/list.c", harness="h_lb_" + h, plain=True, logctx="STRUCTS", props=["C12", "C04"], bounded=True,
      bound_note="every list of <= K nodes (keys in 0..3, duplicates allowed, with and without comparator), K=4 quick / 6 thorough; loops unwound K+6",
      defines_quick=["V_K=4"], defines_thorough=["V_K=6"], unwind=10, unwind_thorough=12, native=True,
      contract_files=["contracts/list.contracts.h"], timeout=600, timeout_thorough=3000, min_obligations=10)

# =====================================================================================================
# C11  ordered set (BST)
# =====================================================================================================
PROPS["C11"] = {
    "level": "other",
    "level_text": "Contract-based, two tiers reported separately. Unbounded: the default comparator is proved to order EVERY pair of 64-bit addresses "
                  "consistently (sign of the address comparison, no truncation); insert_node and the <=1-child splice of remove_node are proved against exact "
                  "window contracts for trees of any size (links, parent pointers, length, destructor once on the removed element, frame). Bounded stand-in: "
                  "everything that walks the tree (descent, successor search, 2-children removal, insert/find/remove, the three traversals, iterator with "
                  "removal, clear/free) is checked on EVERY binary-search-tree shape of <= K nodes (K=4 quick, 5 thorough), every query-key position, user and "
                  "default comparator, with/without destructor, against a set model (bitmask) and a reference traversal. Because the deciding clauses for "
                  "tree walks rest on the bounded tier, the level is 'other', not 'proof'.",
    "level_note": "Trusted: CBMC, allocator stub, recording destructor/comparator/callback stubs. Pointer-chasing loops cannot be closed with CBMC loop contracts "
                  "(no is_fresh in invariants), hence the bounded tier; unwinding assertions are on, so each bounded run is complete for its shape. Key sets are "
                  "represented by rank (comparator-only structure).",
    "design_ref": "DESIGN.md 4 (C11), 2.5 idiom A/B/D",
    "not_decided": ["tree-walking functions on trees with more than K nodes (bounded stand-in only)",
                    "user comparators that are not a total order consistent with equality (outside the documented precondition)"],
    "explanation": "contract-based deductive verification; unbounded for ptrcmp/insert_node/remove_node(<=1 child)/new/len, bounded (all shapes <= K nodes, "
                   "one complete CBMC run per shape) for every function that walks the tree; see coverage.obligations vs coverage.bounded_obligations",
}
for h, fn in (("ptrcmp", "ptrcmp"), ("new", "m_bst_new"), ("len", "m_bst_len"), ("insert_node", "insert_node"), ("remove_node", "remove_node")):
    U("b." + h, src="units/bst.c", harness="h_b_" + h, enforce=fn, logctx="STRUCTS", props=["C11", "C04"],
      contract_files=["contracts/bst.contracts.h"], native=True, timeout=300, min_obligations=5,
      # remove_node is recursive: the recursive call (2-children branch, excluded by the window precondition) is checked
      # against the contract itself; the successor-search loop in that branch is unreachable, its unwinding assertion proves it
      enforce_rec=(h == "remove_node"), unwindset=({"find_min_subtree.0": 1} if h == "remove_node" else {}))


BST_K_QUICK, BST_K_THOROUGH = 4, 5


def bst_shapes(n):
    """pre-order rank sequences of all binary-search-tree shapes with n nodes (= 231-avoiding permutations of 0..n-1)"""
    def rec(lo, hi):
        if lo >= hi:
            return [[]]
        out = []
        for root in range(lo, hi):
            for L in rec(lo, root):
                for R in rec(root + 1, hi):
                    out.append([root] + L + R)
        return out
    return rec(0, n)


def _bst_bounded(kmax, thorough_only):
    for n in range(0, kmax + 1):
        for sh in bst_shapes(n):
            packed = sum(r << (4 * i) for i, r in enumerate(sh))
            sid = "n%d_%s" % (n, "".join(str(r) for r in sh) or "e")
            for h in ("insert", "find", "remove", "traverse", "walk", "clear"):
                scripts = range(1 << n) if h == "walk" else [None]
                for sc in scripts:
                    U("bb.%s#%s%s" % (h, sid, "" if sc is None else "_r%x" % sc), src="units/bst.c", harness="h_bb_" + h, plain=True, logctx="STRUCTS",
                      props=["C11", "C04"], bounded=True,
                      bound_note="one run per tree shape (and, for the iterator walk, per removal script): every binary search tree of <= K nodes "
                                 "(K=%d quick / %d thorough), every query key position, user and default comparator, with/without destructor; "
                                 "loops and recursion unwound max(n+4,7) with unwinding assertions" % (BST_K_QUICK, BST_K_THOROUGH),
                      defines=["V_N=%d" % n, "V_SHAPE=0x%xull" % packed] + ([] if sc is None else ["V_SCRIPT=%d" % sc]), unwind=max(n + 4, 7), native=True,
                      thorough_only=thorough_only(n), contract_files=["contracts/bst.contracts.h"], timeout=600, min_obligations=10)


_bst_bounded(BST_K_THOROUGH, lambda n: n > BST_K_QUICK)

# =====================================================================================================
# C05  map
# =====================================================================================================
PROPS["C05"] = {
    "level": "other",
    "level_text": "Contract-based, two tiers reported separately. Unbounded (modular): hashmap_put() and m_map_put() are loop-free and are verified for tables "
                  "of ANY size against the contracts of hashmap_entry_find()/hashmap_rehash(): new key stored once and length+1, update only if allowed and in "
                  "place, value destructor exactly once on a replaced value and never otherwise, failure leaves no trace, a duplicated key is a private copy that "
                  "is released whenever it is not stored. Bounded stand-in: the dictionary semantics of everything that probes or scans the table (lookup, the slot "
                  "choice of put, rehash, remove with back-shift, iterator and callback iteration with removal/replacement, clear/free) is checked on EVERY table "
                  "of T slots satisfying the representation invariant, for an ARBITRARY hash function (ghost array: every collision pattern, clusters wrapping the "
                  "table end), universe of T+1 keys, all flag combinations (T=4 quick, T=8 thorough). Deciding clauses rest on the bounded tier => level 'other'.",
    "level_note": "Trusted: CBMC; in the bounded units calls to the static hash function are redirected to a ghost table (goto-instrument --replace-calls) and strcmp is "
                  "specialised to the 2-byte keys used; hashmap_entry_find/hashmap_rehash contracts used by the unbounded units are justified by the bounded "
                  "units (findslot, lookup, rehash), i.e. only up to T slots. Growth 256->512 of the shipped table is covered as T->2T (code is parametric in table_size).",
    "design_ref": "DESIGN.md 4 (C05)",
    "not_decided": ["probing/scanning functions on tables with more than T slots (bounded stand-in only)",
                    "that the real hash function is a function of the key bytes only (by inspection: it reads nothing else)"],
    "explanation": "contract-based deductive verification; unbounded for hashmap_put/m_map_put modulo callee contracts, bounded (all map_inv tables of T slots, ghost hash) "
                   "for every function with a probe/scan loop; see coverage.obligations vs coverage.bounded_obligations",
}


def _map_bounded():
    for T, thorough_only in ((4, False), (8, True)):
        for km, kmname in ((0, "callerkeys"), (1, "autofree"), (2, "dup")):
            for h in ("lookup", "findslot", "rehash", "remove", "walk", "iterate", "clear"):
                if T == 8 and h in ("walk", "iterate", "clear"):
                    continue      # measured: do not finish in 2 h at T=8 (walk, iterate) / exhaust memory (clear); T=8 covers lookup, slot choice, rehash, remove
                U("mb.%s#T%d_%s" % (h, T, kmname), src="units/map.c", harness="h_mb_" + h, plain=True, replace_calls={"hashmap_hash_string": "v_ghost_hash"},
                  logctx="STRUCTS", props=["C05", "C04"], bounded=True, thorough_only=thorough_only,
                  bound_note="every table of T slots satisfying map_inv (T=4 quick; T=4 and 8 thorough), universe of T+1 keys, arbitrary hash function "
                             "(ghost array, substituted with goto-instrument --replace-calls), every flag combination; loops unwound 3T with unwinding assertions",
                  defines=["V_T=%d" % T, "V_KEYMODE=%d" % km] , unwind=3 * T, native=False,
                  # m_map_iterate re-examines a slot with `--entry` inside the for loop; at slot 0 this forms table-1 (never dereferenced).
                  # CBMC's pointer-overflow check flags that and then treats everything after it as unreachable, which would hide
                  # every later obligation on those paths; the check is therefore off for this unit only (dereference checks stay on).
                  drop_checks=(["--pointer-overflow-check"] if h == "iterate" else []),
                  contract_files=[], timeout=1500 if T == 4 else 3000, min_obligations=10, mem_gb=24 if h.startswith("put") else 16)


_map_bounded()
# T=8 removal at concrete occupancy patterns (clusters of 3 and 4 entries, at the table start and wrapping around its end): in a table of
# 8 slots entries can sit 2 and 3 slots away from home, which T=4 cannot express (probe length 2)
for _occ in (0x07, 0x0f, 0xc1, 0xc3, 0x87):
    U("mb.remove8#o%02x" % _occ, src="units/map.c", harness="h_mb_remove", plain=True, replace_calls={"hashmap_hash_string": "v_ghost_hash"},
      logctx="STRUCTS", props=["C05", "C04"], bounded=True,
      bound_note="tables of 8 slots with the given occupancy pattern (cluster of 3-4 entries, also wrapping), arbitrary keys/hash within map_inv, caller-owned keys",
      defines=["V_T=8", "V_KEYMODE=0", "V_OCC=%d" % _occ], unwind=24, native=False, contract_files=[], timeout=900, min_obligations=10)
for f1 in (0, 1, 2):
    for f2 in ((0, 1, 2) if f1 == 0 else (0,)):
        U("m.put#f%d%d" % (f1, f2), src="units/map.c", harness="h_m_put", enforce="hashmap_put", replace=["hashmap_entry_find", "hashmap_rehash"], logctx="STRUCTS",
          props=["C05", "C04"], contract_files=["contracts/map.contracts.h"], native=False, timeout=600, min_obligations=20,
          defines=["V_T=4", "V_F1=%d" % f1, "V_F2=%d" % f2])
        U("m.mput#f%d%d" % (f1, f2), src="units/map.c", harness="h_m_mput", replace=["hashmap_put"], logctx="STRUCTS",
          props=["C05", "C04"], contract_files=["contracts/map.contracts.h"], native=False, timeout=600, min_obligations=20,
          defines=["V_T=4", "V_F1=%d" % f1, "V_F2=%d" % f2], unwindset={"strlen.0": 4, "memcpy.0": 4})

# =====================================================================================================
# C09  per-module source registry
# =====================================================================================================
for k in ("fd", "tmr", "sgn", "pid", "task", "thresh", "path"):
    U("srccmp." + k, src="units/srccmp.c", harness="h_cmp_" + k, plain=True, logctx="CORE", props=["C09"], native=False,
      contract_files=[], timeout=600, min_obligations=4, cbmc_extra=["--float-overflow-check", "--nan-check"] if False else [])
U("srccmp.keywrap", src="units/srccmp.c", harness="h_key_wrap", plain=True, logctx="CORE", props=["C09"], native=False,
  contract_files=[], timeout=600, min_obligations=3, unwind=10)

# =====================================================================================================
# core units
# =====================================================================================================
ABS = ["contracts/abs.contracts.h"]
U("ctx.push_evt", src="units/ctx_unit.c", harness="h_push_evt", enforce="push_evt",
  replace=["m_mem_unref", "m_queue_enqueue", "m_queue_len", "m_queue_new", "call_pubsub_cb"], logctx="CORE",
  props=["C13", "C08", "C18", "C03", "C04"], contract_files=ABS + ["contracts/ctx.contracts.h"], native=False, timeout=600, min_obligations=30)
U("ps.call_pubsub_cb", src="units/ps_unit.c", harness="h_call_pubsub_cb", enforce="call_pubsub_cb",
  replace=["m_mem_ref", "m_mem_unref", "m_queue_len", "m_queue_free", "m_stack_peek", "fs_notify", "fetch_ms", "v_on_evt", "v_become_evt"], logctx="CORE",
  props=["C17", "C04", "C15", "C02"], contract_files=ABS + ["contracts/cb.contracts.h", "contracts/ps.contracts.h"], native=False, timeout=600, min_obligations=30)
EVTS = ABS + ["contracts/evts.contracts.h"]
U("evts.become", src="units/evts_unit.c", harness="h_become", enforce="m_mod_become", replace=["m_ctx", "m_mod_is", "fetch_ms", "m_stack_push", "m_stack_peek", "m_stack_len"], logctx="CORE",
  props=["C17", "C18", "C14", "C01", "C04"], contract_files=EVTS, native=False, timeout=600, min_obligations=30)
U("evts.unbecome", src="units/evts_unit.c", harness="h_unbecome", enforce="m_mod_unbecome", replace=["m_ctx", "m_mod_is", "fetch_ms", "m_stack_pop", "m_stack_peek", "m_stack_len"], logctx="CORE",
  props=["C17", "C18", "C14", "C01", "C04"], contract_files=EVTS, native=False, timeout=600, min_obligations=30)
U("evts.stash", src="units/evts_unit.c", harness="h_stash", enforce="m_mod_stash", replace=["m_ctx", "m_mod_is", "fetch_ms", "m_mem_ref", "m_queue_enqueue"], logctx="CORE",
  props=["C16", "C18", "C14", "C04"], contract_files=EVTS, native=False, timeout=600, min_obligations=30)
U("evts.set_batch_size", src="units/evts_unit.c", harness="h_set_batch_size", enforce="m_mod_set_batch_size", replace=["m_ctx", "m_mod_is", "fetch_ms"], logctx="CORE",
  props=["C13", "C18", "C14", "C04"], contract_files=EVTS, native=False, timeout=600, min_obligations=30)
_UNSTASH_REPL = ["m_ctx", "m_mod_is", "fetch_ms", "m_mem_ref", "m_queue_enqueue", "m_queue_new", "m_queue_len", "m_queue_itr_new", "m_queue_itr_next",
                 "m_queue_itr_get_data", "m_queue_itr_remove", "call_pubsub_cb"]
# (a loop-contract version of this unit exists behind -DV_UNSTASH_LOOPCONTRACT; CBMC's symbolic execution does not finish on it
#  within 300 s, so only the bounded stand-in is registered -- see DESIGN.md)
U("evts.unstash_real", src="units/evts_real.c", harness="h_unstash_real", plain=True, logctx="CORE", bounded=True,
  bound_note="real evts.c + real queue.c, every stash of <= K events (K=4 quick / 8 thorough), every n; loops unwound K+3 with unwinding assertions",
  defines_quick=["V_KSTASH=4"], defines_thorough=["V_KSTASH=8"], unwind=8, unwind_thorough=12,
  props=["C16", "C04"], contract_files=[], native=True, timeout=600, min_obligations=10)
MODC = ABS + ["contracts/cb.contracts.h", "contracts/mod.contracts.h"]
U("mod.stop", src="units/mod_unit.c", harness="h_stop", enforce="stop",
  replace=["manage_srcs", "m_mod_is", "reset_module", "optional_hook", "tell_system_pubsub_msg"], logctx="CORE",
  props=["C01", "C19", "C03", "C09", "C04", "C07"], contract_files=MODC, native=False, timeout=300, min_obligations=30)
U("mod.start", src="units/mod_unit.c", harness="h_start", enforce="start",
  replace=["init_pubsub_fd", "manage_srcs", "optional_hook", "tell_system_pubsub_msg", "stop"], logctx="CORE",
  props=["C01", "C19", "C03", "C04"], contract_files=MODC, native=False, timeout=300, min_obligations=30)
U("mod.optional_hook", src="units/mod_unit.c", harness="h_optional_hook", enforce="optional_hook",
  replace=["m_mem_ref", "m_mem_unref", "m_mod_is", "v_on_start", "v_on_stop", "v_on_eval"], logctx="CORE",
  props=["C01", "C15", "C03", "C04"], contract_files=MODC, native=False, timeout=300, min_obligations=30)
U("mod.deregister", src="units/mod_unit.c", harness="h_mod_deregister", enforce="mod_deregister",
  replace=["m_ctx", "m_mod_is", "m_mem_ref", "m_mem_unref", "m_map_remove", "m_map_len", "stop", "fs_cleanup", "m_mem_unrefp", "m_ctx_deregister"], logctx="CORE",
  props=["C01", "C19", "C07", "C15", "C14", "C04"], contract_files=MODC, native=False, timeout=300, min_obligations=30)
U("mod.evaluate", src="units/mod_unit.c", harness="h_evaluate_module", enforce="evaluate_module",
  replace=["m_mod_is", "fetch_ms", "optional_hook", "start", "m_bst_itr_new"], logctx="CORE",
  props=["C01", "C03", "C04"], contract_files=MODC, native=False, timeout=300, min_obligations=30)
for _h, _fn, _callee in (("m_start", "m_mod_start", "start"), ("m_pause", "m_mod_pause", "stop"), ("m_resume", "m_mod_resume", "start"), ("m_stop", "m_mod_stop", "stop")):
    U("mod." + _h, src="units/mod_unit.c", harness="h_" + _h, enforce=_fn, replace=["m_ctx", "m_mod_is", "fetch_ms", _callee, "m_list_itr_new"], logctx="CORE",
      props=["C01", "C18", "C14", "C07", "C04"], contract_files=MODC, native=False, timeout=300, min_obligations=30, enforce_rec=True)
_RECV_REPL = ["fetch_ms", "poll_wait", "poll_recv", "new_evt", "v_process", "push_evt", "m_mem_unref", "m_map_iterate", "m_mod_is"]
U("ctx.recv_events", src="units/ctx_unit.c", harness="h_recv_events", enforce="recv_events", loop_contracts=True, replace=_RECV_REPL, logctx="CORE",
  defines=["V_RECV_UNIT", "V_RECV_LOOPCONTRACT", "V_NFDS_MAX=1000000"], props=["C03", "C01", "C04"], contract_files=ABS + ["contracts/recv.contracts.h"],
  native=False, timeout=300, min_obligations=40, must_have=["invariant after step"])
PSC = ABS + ["contracts/cb.contracts.h", "contracts/ps.contracts.h"]
U("ps.send_two_real", src="units/ps_real.c", harness="h_send_two_real", plain=True, logctx="CORE",
  props=["C02", "C04"], contract_files=[], native=True, timeout=300, min_obligations=20, unwind=8)
U("ps.tell_if_real", src="units/ps_real.c", harness="h_tell_if_real", plain=True, logctx="CORE",
  props=["C02", "C08", "C04"], contract_files=[], native=True, timeout=300, min_obligations=20, unwind=8)
U("ps.flush", src="units/ps_unit.c", harness="h_flush", enforce="flush_pubsub_msgs", loop_contracts=True, defines=["V_FLUSH_UNIT"],
  replace=["m_queue_new", "v_read", "m_mod_is", "new_evt", "m_queue_enqueue", "m_mem_unref", "call_pubsub_cb", "fs_ctx_stopped"], logctx="CORE",
  props=["C02", "C08", "C01", "C04"], contract_files=PSC, native=False, timeout=300, min_obligations=30, must_have=["invariant after step"])
U("evts.new_evt", src="units/evts_unit.c", harness="h_new_evt", enforce="new_evt", replace=["m_mem_new", "m_mem_ref"], logctx="CORE",
  props=["C02", "C04"], contract_files=EVTS, native=False, timeout=300, min_obligations=20)
CTXAPI = ABS + ["contracts/ctxapi.contracts.h"]
U("ctx.m_ctx", src="units/ctx_unit.c", harness="h_m_ctx", enforce="m_ctx", replace=["v_pthread_getspecific"], logctx="CORE", defines=["V_CTXAPI_UNIT", "V_ENFORCE_M_CTX"],
  props=["C15", "C07", "C04"], contract_files=CTXAPI, native=False, timeout=300, min_obligations=15)
U("ctx.deregister", src="units/ctx_unit.c", harness="h_ctx_deregister", enforce="m_ctx_deregister", replace=["m_ctx", "v_pthread_setspecific", "m_map_iterate", "m_mem_unref"], logctx="CORE",
  defines=["V_CTXAPI_UNIT"], props=["C07", "C15", "C04"], contract_files=CTXAPI, native=False, timeout=120, min_obligations=20)
U("ctx.register", src="units/ctx_unit.c", harness="h_ctx_register", enforce="m_ctx_register", replace=["str_not_empty", "v_pthread_once", "v_pthread_getspecific", "ctx_new"], logctx="CORE",
  defines=["V_CTXAPI_UNIT"], props=["C07", "C04"], contract_files=CTXAPI, native=False, timeout=300, min_obligations=20)
U("mod.reset_module", src="units/mod_unit.c", harness="h_reset_module", enforce="reset_module", defines=["V_RESET_UNIT"],
  replace=["v_close", "m_map_clear", "m_stack_clear", "m_queue_clear", "m_list_clear"], logctx="CORE",
  props=["C20", "C13", "C16", "C17", "C18", "C09", "C04"], contract_files=ABS + ["contracts/cb.contracts.h", "contracts/fd.contracts.h"], native=False, timeout=300, min_obligations=20)
POLLC = ABS + ["contracts/fd.contracts.h", "contracts/poll.contracts.h"]
U("poll.set_new_evt", src="units/poll_unit.c", harness="h_poll_set_new_evt", enforce="poll_set_new_evt", defines=["V_POLL_UNIT"],
  replace=["v_epoll_ctl", "v_close", "v_timerfd_create", "v_timerfd_settime", "v_signalfd", "v_sigprocmask", "v_inotify_init1", "v_inotify_add_watch", "v_eventfd"], logctx="CORE",
  props=["C20", "C03", "C04"], contract_files=POLLC, native=False, timeout=300, min_obligations=20)
U("src.priv_dtor", src="units/poll_unit.c", harness="h_src_priv_dtor", enforce="src_priv_dtor", defines=["V_SRCDTOR_UNIT"],
  replace=["m_mod_is", "poll_set_new_evt", "v_close"], logctx="CORE",
  props=["C20", "C04"], contract_files=POLLC, native=False, timeout=300, min_obligations=20)
THP = ["contracts/thpool.contracts.h"]
U("thpool.add", src="units/thpool_unit.c", harness="h_pool_add", enforce="m_thpool_add", defines=["V_POOL_ADD"], logctx="THPOOL",
  replace=["v_mutex_lock", "v_mutex_unlock", "v_cond_signal", "m_list_len", "add_threads", "m_queue_enqueue"],
  props=["C06", "C04"], contract_files=THP, native=False, timeout=300, min_obligations=20)
U("thpool.length", src="units/thpool_unit.c", harness="h_pool_length", enforce="m_thpool_length", defines=["V_POOL_LEN"], logctx="THPOOL",
  replace=["v_mutex_lock", "v_mutex_unlock", "m_queue_len"], props=["C06", "C04"], contract_files=THP, native=False, timeout=300, min_obligations=20)
U("thpool.worker", src="units/thpool_unit.c", harness="h_pool_worker", enforce=None, defines=["V_POOL_WORKER"], logctx="THPOOL", loop_contracts=True,
  replace=["v_mutex_lock", "v_mutex_unlock", "v_cond_wait", "m_queue_len", "m_queue_dequeue", "v_task"],
  props=["C06", "C04"], contract_files=THP, native=False, timeout=300, min_obligations=20, must_have=["invariant after step"])
U("thpool.wait_pool", src="units/thpool_unit.c", harness="h_wait_pool", enforce="wait_pool", defines=["V_POOL_WAIT"], logctx="THPOOL", loop_contracts=True,
  replace=["v_mutex_lock", "v_mutex_unlock", "v_cond_broadcast", "m_list_itr_new", "m_list_itr_next", "m_list_itr_get_data", "v_thread_join"],
  props=["C06", "C04"], contract_files=THP, native=False, timeout=200, min_obligations=20, must_have=["invariant after step"])
for _h, _n, _props in (("mod", 24, ["C01", "C14", "C18", "C07", "C15"]), ("state", 8, ["C01", "C18", "C14", "C07"]), ("ps", 7, ["C15", "C14", "C18", "C02", "C09"]), ("ctx", 13, ["C07", "C15"])):
    for _w in range(_n):
        if (_h, _w) in (("mod", 20), ("ctx", 5)):
            continue          # m_mod_dump / m_ctx_dump: logging only, out of scope (DESIGN.md appendix A); their formatting loops exhaust the solver
        U("guards.%s#%d" % (_h, _w), src="units/guards.c", harness="h_guard_" + _h, plain=True, assert_false_bodies="(?!v_|__CPROVER|malloc|calloc|free|memcpy|memset|memcmp).*", logctx="CORE",
          defines=["V_WHICH=%d" % _w], props=_props + ["C04"], contract_files=[], native=False, timeout=200, min_obligations=20, unwind=3,
          unwindset={"v_strlen.0": 24, "v_strncmp.0": 12, "v_base_init.0": 7, "m_mod_register.0": 10})
U("c14.static_inventory", script="lib/c14_inventory.py", tag="C14.no-unsynchronised-process-wide-mutable-state", src="lib/c14_inventory.py", harness="-", logctx="CORE",
  props=["C14"], contract_files=[], native=False, timeout=120, min_obligations=5)


# =====================================================================================================
# property texts for the core properties (what is claimed, at which level, what is not decided)
# =====================================================================================================
_CORE_NOTE = ("Trusted: CBMC 6.11 and its DFCC contract instrumentation; contracts of callees outside the function under proof (containers, reference counting, "
              "poll plugin, other core files) are ghost-counter abstractions in contracts/abs.contracts.h -- each core function is checked against its callees' CONTRACTS, "
              "and each such callee contract is itself enforced in its own unit where listed; user callbacks are contracts too (assume-guarantee: a callback may use the "
              "public API on its module, it changes its own module's state only by deregistering it). Allocation failure is not modelled in the core units.")


def _P(pid, level, text, note=_CORE_NOTE, not_decided=(), explanation="", design_ref=None):
    PROPS[pid] = {"level": level, "level_text": text, "level_note": note, "not_decided": list(not_decided),
                  "explanation": explanation or ("contract-based deductive verification with CBMC code contracts on the real sources; see coverage.units for the functions under contract"),
                  "design_ref": design_ref or ("DESIGN.md 4 (%s)" % pid)}


_P("C01", "proof",
   "Lifecycle as contracts on the real mod.c/ctx.c: start(), stop(), optional_hook(), mod_deregister(), evaluate_module() and the four public setters are each enforced against a "
   "contract giving the only allowed edges (requires on the old state, checked at every call site), the callbacks run (start/stop exactly once where promised, none on pause/resume), "
   "the ZOMBIE outcome, and the invariant running_modules == #RUNNING through callbacks (focus module + ghost count of the others). Every public entry point is additionally checked, "
   "per function, to return a negative code and change nothing when called in a wrong state / on a zombie / without context or token (guard units: full symbolic state, all callees "
   "assert(false)). recv_events() (unbounded loop contract) establishes 'no handler for a module that is not RUNNING'.",
   not_decided=["termination of m_ctx_loop (liveness)", "modules bound with m_mod_bind (units assume an empty bound list)",
                "nested start/stop/pause of a module's own state from inside its callbacks beyond what the per-function invariants give",
                "that m_map_iterate visits every module (covered for the map itself under C05, bounded)"])
_P("C02", "proof",
   "Sending: tell_if() is verified on the real ps.c + real mem.c for all recipient states / topic / subscription / pipe-full / auto-free combinations (loop-free, full domain): exactly the "
   "eligible recipient gets exactly one copy carrying sender, topic, payload pointer and flags, nobody else gets anything, the copy keeps the sender alive, a copy that cannot be "
   "written is released (not the caller's message). Receiving: flush_pubsub_msgs() is enforced with an unbounded loop contract over a ghost pipe: the pipe is drained, every pending "
   "message is either handed over (loop stop, module RUNNING; in pipe order, one invocation) or released exactly once. new_evt() accepts subscription-less messages. Guard units: refused "
   "sends reach nobody.",
   not_decided=["pipe capacity (kernel constant)", "recipient selection loops tell_subscribers()/fetch_sub() over all modules/subscriptions and regular-expression matching (not under contract)",
                "payload accounting for auto-free sends to != 1 recipients is a recorded known finding"])
_P("C03", "proof",
   "recv_events() is enforced with an unbounded loop contract (any batch size up to 10^6 ready sources): whatever errno the user handlers leave behind, every ready source of the batch is "
   "consumed and handed to push_evt() exactly once while the module stays RUNNING, the loop is asked to quit only for a genuine polling failure, events of a module paused mid-batch are not "
   "delivered; push_evt() stores the registration user data; poll_set_new_evt() arms one-shot sources one-shot; the count the loop exit condition reads is proved exact in start()/stop().",
   not_decided=["that epoll reports what is ready; loop termination", "m_ctx_loop_events/m_ctx_dispatch/loop_start/loop_stop are not under contract in this round (quit-code return path)",
                "one-shot removal branch of recv_events (unit assumes a non-one-shot fd source)", "sources destroyed by a stop/deregister in the same poll batch (dangling epoll data pointer)"])
_P("C04", "proof",
   "Memory safety rides on every unit: each function under contract is checked with pointer, bounds, overflow and free-precondition checks under its representation invariant / contract "
   "precondition (all obligations of all units count here). Lifetime: reference balance obligations (module pinned during callbacks and deregistration, in-flight message keeps its sender, "
   "event holds its source, copies/batches/events released exactly once) are tagged clauses of the same contracts.",
   not_decided=["whole-program ownership (refs == #holders for every object kind) -- only the per-function balance clauses listed in the samples",
                "dump/logging functions, fuse/kqueue/uring plugins", "a source's uncounted back-pointer to its module; subscription pointer inside an in-flight message after unsubscribe"])
_P("C06", "proof",
   "Lock discipline and per-step accounting of the real thpool.c under contracts for the pthread primitives over a ghost lock word (lock/wait havoc every field behind the mutex, so each "
   "thread's step is proved under arbitrary interference): m_thpool_add/length release the mutex on every path, touch queue and thread list only under it, enqueue exactly one record carrying "
   "(fn,arg) and signal once; the worker loop (loop contract, unbounded) runs each dequeued record exactly once, outside the mutex, with its argument, releases it once, leaves on WAITCURR "
   "without touching pending work and on WAITALL only with an empty queue, re-tests the predicate after every wake-up; wait_pool publishes shutdown under the mutex, broadcasts and joins every "
   "worker (loop contract).",
   note="Trusted: CBMC; pthread primitives are contracts (ghost lock), the rely/guarantee step from lock discipline to 'each accepted task at most once under every interleaving' is the "
        "written argument of DESIGN.md 4 (C06), not machine-checked.",
   not_decided=["interleaving semantics beyond the lock-discipline argument; deadlock freedom / lost wake-ups (liveness)", "m_thpool_new/add_threads/m_thpool_free staged teardown and m_thpool_clear not under contract",
                "detached pools are a recorded known finding"])
_P("C07", "proof",
   "m_ctx() (real), m_ctx_register() and m_ctx_deregister() are enforced against contracts over a ghost thread slot: a second context on a thread is refused with EEXIST and no effect, "
   "deregistration is refused while looping, an idle context visits its modules while it is still the thread's context, empties the slot and drops its registration reference once; "
   "mod_deregister() releases a non-persistent idle context exactly when its last module goes; guard units: every context call and m_mod_register on a thread without (visible) context, "
   "or after finalize, fails without effect.",
   not_decided=["ctx_new()/ctx_dtor() internals, auto-release at loop stop (loop_stop not under contract)", "that m_map_iterate(ctx_destroy_mods) reaches every module (C05 bounded)"])
_P("C08", "proof",
   "Order is preserved by each step, proved per function: tell_if() appends at the tail of the recipient's pipe (one pointer per write), flush_pubsub_msgs() pops the head and appends to the "
   "delivery queue in that order (loop contract), push_evt() appends at the tail of the accumulation queue and hands over that same queue, unstash moves from the head (bounded); "
   "the queue itself is FIFO (C12).",
   note=_CORE_NOTE + " Assumed: the kernel pipe is FIFO for pointer-sized writes.",
   not_decided=["process_ps() and the poison-pill branch of recv_events() (not under contract this round)", "batching + poison pill interplay (C02 lets batched messages be discarded)"])
_P("C09", "proof",
   "All seven source comparators are verified over their full key domains (sign == key order, antisymmetric, transitive, zero iff same key; doubles bit-precise), and a key wrapped for "
   "lookup compares equal to a stored source with that key for every kind; reset_module() drops subscriptions on stop; guard units: rejected registrations leave no trace.",
   not_decided=["register_mod_src()/deregister_mod_src()/m_mod_src_len() bodies against the set contract of the BST (C11 is bounded) are not under contract this round",
                "m_mod_ps_subscribe in-place update"])
_P("C13", "proof",
   "push_evt() is enforced against its strongest postcondition for all (priority flags, internal/batch/token timers, batch size, accumulated count): the handler is invoked exactly when the "
   "statement says, with exactly the accumulated queue, nothing lost or duplicated; m_mod_set_batch_size sets exactly; reset_module() discards accumulated events and resets batching.",
   not_decided=["m_mod_set_batch_timeout / priority normalisation in create_src (not under contract this round)", "that the kernel timer fires after the configured time"])
_P("C14", "proof",
   "Thread confinement: guard units over every public module call prove that a call from a thread whose context is not the module's (none, hidden or foreign) fails with a permission error and "
   "changes nothing, and that tell/poisonpill refuse a recipient of another context. Independence: a rebuilt inventory (gcc+nm) of every writable static-lifetime object of the library must "
   "equal the reviewed allow-list (init-once / never written / pthread_once), so contexts on different threads share no unsynchronised state; per-function frames of the contract units "
   "mention no static object.",
   note="Trusted: the allow-list review (each entry says why sharing is harmless); the inventory is a supporting static fact, not a CBMC proof.",
   not_decided=["races inside libc/kernel; schedule exploration (another family)", "task threads (task_thread) not under contract"])
_P("C15", "proof",
   "m_ctx() hides the context from a deny-ctx module exactly while one of its callbacks runs; callbacks are entered with curr_mod == their module and the previous value is restored on exit "
   "(nesting); guard units: deny-pub / deny-sub calls, publishing on the reserved prefix, context calls while hidden all fail without effect; mod_deregister refuses a persistent module while "
   "its context loops.",
   not_decided=["what the replaced module's deregistration does to the context when it was the last module (auto-release) is not re-checked inside m_mod_register"])
_P("C16", "other",
   "m_mod_stash() is enforced against its contract (RUNNING only, never HIGH priority -- for every flag word --, exactly one reference and one append at the tail); reset_module() discards the "
   "stash on stop; m_mod_unstash() is a BOUNDED stand-in: real evts.c + real queue.c, every stash of <= K events and every n: exactly min(n, stashed) oldest events, in order, one "
   "invocation, rest stays, reference balance.",
   not_decided=["m_mod_unstash for more than K stashed events (its loop contract exists but CBMC did not finish on it)"],
   explanation="contract-based; unbounded for stash/reset, bounded (K=4/8 stashed events, real code) for unstash")
_P("C17", "proof",
   "m_mod_become/unbecome (push exactly this handler / pop exactly the top, RUNNING only, token), call_pubsub_cb (exactly one invocation of the handler that was on top when the delivery "
   "started, else the registration-time one; none for an empty batch) and reset_module (stack emptied on stop) are enforced against their contracts; LIFO of the stack itself is C12.",
   not_decided=[])
_P("C18", "proof",
   "Every rate-limited entry point fails with EAGAIN and changes nothing when no token is left (guard units + setter contracts), a success consumes exactly one token, push_evt() refills one "
   "token per tick of the internal refill timer capped at burst and nothing else touches the bucket, reset_module() removes the limit on stop.",
   not_decided=["the relation between refill ticks and seconds (real time), hence the literal bound b + r*t (the refill period is floor(10^9/r) ns, so ticks/s >= r)"])
_P("C19", "proof",
   "Emission points as contract clauses: start() emits exactly one MOD_STARTED naming the module on an accepted start/resume and none on a refused one, stop()/pause/deregistration exactly one "
   "MOD_STOPPED (a deregistration nested in the stop callback emits its own), no other notification from these functions.",
   not_decided=["CTX_STARTED/CTX_STOPPED/TICK emission in loop_start/loop_stop/process_tick (not under contract this round)", "delivery of notifications follows C02", "tick period"])
_P("C20", "proof",
   "Over a ghost descriptor owner: poll_set_new_evt() (real epoll.c + cmn_linux.c) makes one library descriptor on registration of timer/signal/path/task/threshold sources and closes exactly "
   "that one, once, on removal, never a user descriptor; src_priv_dtor() leaves the poll set and closes the library descriptor whatever state the module is in, closes a user descriptor exactly "
   "when auto-close was asked; reset_module() closes the pipe write end once; close() is only ever called on an open descriptor the caller owns.",
   not_decided=["pid sources (descriptor made through variadic syscall())", "_pipe/init_pubsub_fd/create_src(DUP)/poll_create/poll_destroy/m_ctx_fd not under contract this round",
                "whole-program 'all closed at the end' follows from per-object ownership only by argument"])
U("mod.set_tokenbucket", src="units/mod_unit.c", harness="h_set_tokenbucket", enforce="m_mod_set_tokenbucket", defines=["V_TB_UNIT"],
  replace=["m_ctx", "m_mod_is", "m_mod_src_deregister_tmr", "m_mod_src_register_tmr"], logctx="CORE",
  props=["C18", "C14", "C04"], contract_files=MODC, native=False, timeout=150, min_obligations=20)
LOOPC = ABS + ["contracts/loop.contracts.h"]
U("ctx.loop_start", src="units/ctx_unit.c", harness="h_loop_start", enforce="loop_start", defines=["V_LOOPSTART_UNIT"], logctx="CORE",
  replace=["poll_init", "fs_start", "fetch_ms", "m_map_iterate", "tell_system_pubsub_msg", "poll_set_new_evt"],
  props=["C19", "C01", "C03", "C04"], contract_files=LOOPC, native=False, timeout=300, min_obligations=20)
U("ctx.loop_stop", src="units/ctx_unit.c", harness="h_loop_stop", enforce="loop_stop", defines=["V_LOOPSTOP_UNIT"], logctx="CORE",
  replace=["tell_system_pubsub_msg", "m_map_iterate", "fs_stop", "poll_set_new_evt", "poll_clear", "m_thpool_free", "m_map_len", "m_ctx_deregister"],
  props=["C19", "C03", "C02", "C07", "C04"], contract_files=LOOPC, native=False, timeout=300, min_obligations=20)
U("ctx.process_tick", src="units/ctx_unit.c", harness="h_process_tick", enforce="process_tick", defines=["V_TICK_UNIT"], logctx="CORE",
  replace=["poll_consume_tmr", "tell_system_pubsub_msg"], props=["C19", "C04"], contract_files=LOOPC, native=False, timeout=300, min_obligations=10)
U("mod.register", src="units/mod_unit.c", harness="h_mod_register", enforce="m_mod_register", defines=["V_REG_UNIT"], logctx="CORE",
  replace=["str_not_empty", "m_ctx", "m_map_get", "mod_deregister", "m_mem_new", "m_mem_ref", "m_mem_unref", "init_src", "m_stack_new", "m_queue_new", "m_list_new", "m_map_put", "fetch_ms"],
  props=["C15", "C07", "C04"], contract_files=ABS + ["contracts/cb.contracts.h", "contracts/reg.contracts.h"], native=False, timeout=200, min_obligations=20,
  unwindset={"m_mod_register_wrapped_for_contract_checking.0": 9})
U("ctx.set_tick", src="units/ctx_unit.c", harness="h_set_tick", enforce="m_ctx_set_tick", defines=["V_SETTICK_UNIT"], logctx="CORE",
  replace=["m_ctx", "deregister_ctx_src", "register_ctx_src"], props=["C19", "C04"], contract_files=ABS + ["contracts/reg.contracts.h"], native=False, timeout=200, min_obligations=10)
U("src.ctx_dereg", src="units/poll_unit.c", harness="h_deregister_ctx_src", enforce="deregister_ctx_src", defines=["V_CTXSRC_UNIT"],
  replace=["poll_set_new_evt", "m_mem_unrefp"], logctx="CORE", props=["C20", "C04"], contract_files=POLLC, native=False, timeout=200, min_obligations=10)
SRCC = ABS + ["contracts/src.contracts.h"]
U("src.register", src="units/src_unit.c", harness="h_register_mod_src", enforce="register_mod_src", defines=["V_SRCREG_UNIT"], logctx="CORE",
  replace=["m_mod_is", "m_ctx", "fetch_ms", "create_src", "m_bst_insert", "m_bst_remove", "poll_set_new_evt", "start_task", "m_mem_unref"],
  props=["C09", "C13", "C18", "C01", "C04"], contract_files=SRCC, native=False, timeout=250, min_obligations=20)
U("src.deregister", src="units/src_unit.c", harness="h_deregister_mod_src", enforce="deregister_mod_src", defines=["V_SRCDEREG_UNIT"], logctx="CORE",
  replace=["m_mod_is", "m_ctx", "fetch_ms", "m_bst_remove"], props=["C09", "C18", "C04"], contract_files=SRCC, native=False, timeout=250, min_obligations=20)
U("src.create", src="units/src_unit.c", harness="h_create_src", enforce="create_src", defines=["V_CREATESRC_UNIT"], logctx="CORE",
  replace=["m_mem_new", "v_dup", "mem_strdup", "m_mem_unrefp"], props=["C09", "C13", "C03", "C20", "C04"], contract_files=SRCC, native=False, timeout=250, min_obligations=20)
# (the bounded stand-in src.len -- stub iterators, <= 2 sources per kind -- was replaced by the unbounded loop-contract unit src.len_u once the loops of m_mod_src_len() were named: hook b6b3d93)
U("ps.pill_real", src="units/ps_real.c", harness="h_pill_real", plain=True, logctx="CORE",
  props=["C08", "C04"], contract_files=[], native=True, timeout=300, min_obligations=20, unwind=42)

# ---- texts brought up to date with the units added after the first full round -------------------------------------------------------
def _more(pid, extra, not_decided):
    PROPS[pid]["level_text"] += " " + extra
    PROPS[pid]["not_decided"] = list(not_decided)


_more("C03", "loop_start()/loop_stop() are enforced: loop_stop() returns exactly the requested quit code, sends the loop-stopped notification before its one flush pass (pending messages still "
      "reach RUNNING modules); create_src() forces task and threshold sources one-shot.",
      ["that epoll reports what is ready; loop termination", "m_ctx_loop_events()/m_ctx_dispatch() drivers (which of loop_start/recv_events/loop_stop is called when) are not under contract",
       "one-shot removal branch of recv_events (unit assumes a non-one-shot fd source)", "sources destroyed by a stop/deregister in the same poll batch (dangling epoll data pointer)"])
_more("C07", "loop_stop() performs the deferred release of a non-persistent context that lost its last module while looping; m_mod_register() registers exactly one new module under the name.",
      ["ctx_new()/ctx_dtor() internals", "that m_map_iterate(ctx_destroy_mods) reaches every module (C05 bounded)",
       "m_ctx_loop_events()/m_ctx_dispatch(): that every way of ending a loop goes through loop_stop()"])
_more("C08", "m_mod_ps_poisonpill() (real ps.c + real mem.c, end to end): an accepted pill is one system message appended at the tail of its recipient's pipe, so it is handled after "
      "everything sent earlier; a pill for a module that is not RUNNING is refused.",
      ["process_ps() and the poison-pill branch of recv_events() (stop on reception; nothing later delivered) are not under contract", "batching + poison pill interplay (C02 lets batched messages be discarded)"])
_more("C09", "register_mod_src()/deregister_mod_src() are enforced over an abstract keyed set (ghost 'key present'): a present key is refused with EEXIST, the candidate released, set and poll set "
      "untouched; a new key joins the set and is polled at once iff the module is RUNNING; removal looks up exactly the caller's identifying value, succeeds iff present, ENOENT without effect "
      "otherwise; create_src() copies the identifying value into the source. m_mod_src_len() is a BOUNDED stand-in (<= 2 sources per kind, stub iterators): the count for one kind is the size "
      "of that kind's set, internal sources excluded.",
      ["that the BST behind the abstract keyed set is a set for > K nodes (C11 is bounded)", "m_mod_ps_subscribe in-place update", "m_mod_src_len for more than 2 sources per kind (bounded stand-in)"])
_more("C13", "register_mod_src() gives every source exactly one priority (the requested one, NORMAL when none; two priorities are refused without trace) and create_src() makes descriptor "
      "sources HIGH priority whatever was asked.",
      ["m_mod_set_batch_timeout (not under contract)", "that the kernel timer fires after the configured time"])
_more("C15", "m_mod_register(): a live name is refused with EEXIST -- nothing deregistered, nothing created -- unless the EXISTING module allows replacement, in which case it is deregistered "
      "first, exactly once, and a failure of that deregistration creates nothing.",
      ["what the replaced module's deregistration does to the context when it was the last module (auto-release) is not re-checked inside m_mod_register"])
_more("C19", "loop_start() emits exactly one loop-started notification (after the evaluation pass), loop_stop() exactly one loop-stopped notification before the final flush, process_tick() "
      "exactly one tick per expiry; m_ctx_set_tick() always removes the previous tick source and arms a new timer with exactly the configured period (none for period 0).",
      ["delivery of notifications follows C02", "real-time tick period (kernel timer)"])
_more("C20", "deregister_ctx_src(): a context-level source (the tick) leaves the poll set -- which closes its timer descriptor -- whenever it is removed, in any loop state; create_src() opens no "
      "descriptor except the duplicate asked for with M_SRC_DUP, which it marks auto-close.",
      ["pid sources (descriptor made through variadic syscall())", "_pipe/init_pubsub_fd/poll_create/poll_destroy/m_ctx_fd not under contract",
       "whole-program 'all closed at the end' follows from per-object ownership only by argument"])
U("ctx.loop_events", src="units/ctx_unit.c", harness="h_loop_events", enforce="m_ctx_loop_events", loop_contracts=True, defines=["V_DRIVER_UNIT"], logctx="CORE",
  replace=["loop_start", "loop_stop", "recv_events"], props=["C03", "C04"], contract_files=LOOPC, native=False, timeout=200, min_obligations=10, must_have=["invariant after step"])
U("ctx.dispatch", src="units/ctx_unit.c", harness="h_dispatch", enforce="m_ctx_dispatch", defines=["V_DRIVER_UNIT"], logctx="CORE",
  replace=["m_ctx", "loop_start", "loop_stop", "recv_events"], props=["C03", "C04"], contract_files=LOOPC, native=False, timeout=200, min_obligations=10)
U("ctx.recv_pill_real", src="units/recv_real.c", harness="h_recv_pill_real", plain=True, replace_calls={"push_evt": "v_push"}, logctx="CORE", bounded=True,
  bound_note="real ctx.c recv_events(), one batch of <= 3 pub/sub messages, pill at every position / absent, topics present or not; loops unwound with unwinding assertions",
  unwind=34, props=["C08", "C01", "C04"], contract_files=[], native=False, timeout=300, min_obligations=20, cbmc_extra=["--no-propagation"])
U("src.process_ps", src="units/src_unit.c", harness="h_process_ps", enforce="process_ps", defines=["V_PROCPS_UNIT"], logctx="CORE",
  replace=["v_read", "m_mem_ref", "m_mem_unref"], props=["C08", "C04"], contract_files=SRCC, native=False, timeout=200, min_obligations=10)

U("ctx.recv_oneshot_real", src="units/recv_real.c", harness="h_recv_oneshot_real", plain=True, replace_calls={"push_evt": "v_push"}, logctx="CORE", bounded=True,
  bound_note="real ctx.c recv_events(), one batch of <= 2 events of a one-shot subscription / one-shot timer / ordinary timer; loops unwound with unwinding assertions",
  unwind=34, props=["C03", "C09", "C04"], contract_files=[], native=False, timeout=300, min_obligations=20, cbmc_extra=["--no-propagation"])
U("evts.set_batch_timeout", src="units/evts_unit.c", harness="h_set_batch_timeout", enforce="m_mod_set_batch_timeout", defines=["V_BT_UNIT"], logctx="CORE",
  replace=["m_ctx", "m_mod_is", "m_mod_src_deregister_tmr", "m_mod_src_register_tmr"], props=["C13", "C14", "C04"], contract_files=EVTS, native=False, timeout=200, min_obligations=20)
SUBSC = ABS + ["contracts/cb.contracts.h", "contracts/subs.contracts.h"]
U("ps.tell_subscribers", src="units/ps_unit.c", harness="h_tell_subscribers", enforce="tell_subscribers", loop_contracts=True, defines=["V_TELLSUBS_UNIT", "V_OWN_M_MOD_IS"], logctx="CORE",
  replace=["m_map_itr_new", "m_map_itr_next", "m_map_itr_get_data", "m_mod_is", "fetch_sub", "tell_if"], props=["C02", "C04"], contract_files=SUBSC, native=False, timeout=300, min_obligations=30,
  must_have=["invariant after step"])
U("ps.fetch_sub", src="units/ps_unit.c", harness="h_fetch_sub", enforce="fetch_sub", loop_contracts=True, defines=["V_FETCHSUB_UNIT"], logctx="CORE",
  replace=["m_map_get", "m_map_itr_new", "m_map_itr_next", "m_map_itr_get_data", "v_regexec"], props=["C02", "C04", "C19"], contract_files=SUBSC, native=False, timeout=900, min_obligations=30,
  must_have=["invariant after step"])
U("thpool.free", src="units/thpool_unit.c", harness="h_pool_free", enforce="m_thpool_free", defines=["V_POOL_FREE"], logctx="THPOOL",
  replace=["wait_pool", "v_cond_destroy", "v_mutex_destroy", "m_queue_free", "m_list_free"], props=["C06", "C04"], contract_files=THP, native=False, timeout=300, min_obligations=20,
  unwindset={"m_thpool_free_wrapped_for_contract_checking.0": 7})
U("thpool.clear", src="units/thpool_unit.c", harness="h_pool_clear", enforce="m_thpool_clear", defines=["V_POOL_CLEAR"], logctx="THPOOL",
  replace=["v_mutex_lock", "v_mutex_unlock", "m_queue_clear", "m_queue_len"], props=["C06", "C04"], contract_files=THP, native=False, timeout=300, min_obligations=20)

_more("C02", "Recipient selection of a publish: tell_subscribers() (loop contract over an abstract module-table iterator, any number of modules) examines every module once, treats RUNNING and PAUSED as "
      "eligible, looks a subscription up for exactly the eligible ones and tells exactly the eligible-and-subscribed ones once with the matched subscription; fetch_sub() (loop contract, any number of "
      "subscriptions) answers 'subscribed' iff the exact topic is present or some pattern matches, taking the first match in table order.",
      ["pipe capacity (kernel constant)", "regular-expression matching itself (regexec is a contract: 'matches at position k')",
       "payload accounting for auto-free sends to != 1 recipients is a recorded known finding"])
PROPS["C06"]["level_text"] += (" m_thpool_free(): a started pool is waited for (all queued tasks / only the tasks in progress, as asked) before the condition variable, the mutex, the task queue and the "
                               "thread list are given up, each initialised stage is undone exactly once; m_thpool_clear() drops the pending tasks under the mutex.")
PROPS["C06"]["not_decided"] = ["interleaving semantics beyond the lock-discipline argument; deadlock freedom / lost wake-ups (liveness)", "m_thpool_new()/add_threads() (creation) not under contract",
                               "detached pools are a recorded known finding"]
PROPS["C13"]["level_text"] += (" m_mod_set_batch_timeout(): the old batch timer is removed, the new one is an internal high-priority timer with exactly the configured period keyed by the batch "
                               "record, time-only batching uses the sentinel size, and timeout 0 leaves no batching behind.")
PROPS["C13"]["not_decided"] = ["that the kernel timer fires after the configured time"]
PROPS["C03"]["level_text"] += (" One-shot sources (real-code bounded unit): removed from their module's registry under the registration key, once per event, the event still delivered. The two loop "
                               "drivers are enforced: m_ctx_loop_events() returns only through loop_stop(), once, only when quit was requested or nothing runs; m_ctx_dispatch() performs exactly one of "
                               "start / stop-and-return-the-code / non-blocking delivery per call.")
PROPS["C03"]["not_decided"] = ["that epoll reports what is ready; loop termination", "sources destroyed by a stop/deregister in the same poll batch (dangling epoll data pointer)",
                               "process_fd/tmr/sgn/path/pid/task/thresh (typed event filled from the kernel object) not under contract"]
PROPS["C07"]["not_decided"] = ["ctx_new()/ctx_dtor() internals", "that m_map_iterate(ctx_destroy_mods) reaches every module (C05 bounded)"]
PROPS["C08"]["level_text"] += (" recv_events() (real ctx.c, bounded batch): with a pill at any position exactly the messages queued before it are delivered, in order, then the recipient is stopped once, "
                               "and nothing behind the pill is read; process_ps() takes exactly the head of the module's own pipe.")
PROPS["C08"]["not_decided"] = ["pill handling for batches of more than 3 messages (bounded stand-in; the per-message step is the same)", "batching + poison pill interplay (C02 lets batched messages be discarded)"]
# (a contract-instrumented unit for m_mod_ps_subscribe -- contracts kept in subs.contracts.h under V_SUBSCRIBE_UNIT -- ran out of memory: the destructor function pointers of the real
# reference-counting code make m_mem_unref/mem_dtor mutually recursive for CBMC; the registered unit is the real-code one, ps.subscribe_real, with recursion unwound 3 deep)
U("ps.subscribe_real", src="units/ps_real.c", harness="h_subscribe_real", plain=True, logctx="CORE", replace_calls={"memcpy": "v_memcpy_regex"}, defines=["V_SUBREAL"],
  props=["C09", "C04"], contract_files=[], native=True, timeout=600, min_obligations=20, unwind=3, unwindset={"v_was_freed.0": 8, "v_strncmp.0": 12, "v_strlen.0": 12, "v_base_init.0": 8, "v_inputs_init.0": 8})
U("ps.tell_system", src="units/ps_unit.c", harness="h_tell_system", enforce="tell_system_pubsub_msg", defines=["V_ROUTE_UNIT"], logctx="CORE",
  replace=["tell_if", "tell_subscribers", "m_map_iterate"], props=["C19", "C08", "C02", "C04"], contract_files=SUBSC, native=False, timeout=300, min_obligations=20)
U("ps.publish", src="units/ps_unit.c", harness="h_publish", enforce="m_mod_ps_publish", defines=["V_ROUTE_UNIT", "V_PUBLISH_UNIT"], logctx="CORE",
  replace=["m_ctx", "m_mod_is", "fetch_ms", "v_strlen", "v_strncmp", "tell_if", "tell_subscribers", "m_map_iterate"], props=["C02", "C15", "C18", "C04"], contract_files=SUBSC, native=False, timeout=300, min_obligations=20)
U("ps.tell", src="units/ps_unit.c", harness="h_tell", enforce="m_mod_ps_tell", defines=["V_ROUTE_UNIT", "V_TELL_UNIT"], logctx="CORE",
  replace=["m_ctx", "m_mod_is", "fetch_ms", "tell_if", "tell_subscribers", "m_map_iterate"], props=["C02", "C14", "C18", "C04"], contract_files=SUBSC, native=False, timeout=300, min_obligations=20)

PROPS["C02"]["level_text"] += (" Routing (tell_system_pubsub_msg, m_mod_ps_publish, m_mod_ps_tell with send_msg/tell_pubsub_msg inlined): a tell goes to exactly its recipient, a publish to the subscribers of "
                               "exactly its topic once, a message without topic is one pass over every module of the sender's context; every message names its sender and carries the caller's payload pointer.")
PROPS["C09"]["level_text"] += (" m_mod_ps_subscribe() (real ps.c + mem.c): one subscription per topic, a repeated subscription with the same flags is updated in place, with other flags replaced, and the "
                               "table is never left keyed by released memory.")
PROPS["C09"]["not_decided"] = ["that the BST behind the abstract keyed set is a set for > K nodes (C11 is bounded)", "m_mod_ps_unsubscribe", "m_mod_src_len for more than 2 sources per kind (bounded stand-in)"]
PROPS["C19"]["level_text"] += (" tell_system_pubsub_msg(): every notification without recipient is exactly one publication to the subscribers of its topic whatever the number of RUNNING modules, flagged as a "
                               "system message, naming the module it is about, without payload.")
for _h, _fn in (("traverse_in", "traverse_inorder"), ("traverse_pre", "traverse_preorder"), ("traverse_post", "traverse_postorder")):
    U("b." + _h, src="units/bst.c", harness="h_b_" + _h, enforce=_fn, enforce_rec=True, replace=["v_trav_cb"], defines=["V_TRAV_UNIT"], logctx="STRUCTS", props=["C11", "C04"],
      contract_files=["contracts/bst.contracts.h"], native=False, timeout=300, min_obligations=5, unwind=3, unwindset={"v_base_init.0": 8, "v_inputs_init.0": 12}, structure_dependent=True)


U("mod.manage_srcs", src="units/mod_unit.c", harness="h_manage_srcs", enforce="manage_srcs", loop_contracts=True, defines=["V_MSRCS_UNIT"], logctx="CORE",
  replace=["m_bst_itr_new", "m_bst_itr_next", "m_bst_itr_get_data", "m_bst_itr_remove", "poll_set_new_evt", "start_task", "flush_pubsub_msgs"],
  props=["C09", "C01", "C02", "C04"], contract_files=ABS + ["contracts/cb.contracts.h", "contracts/msrcs.contracts.h"], native=False, timeout=900, min_obligations=30, must_have=["invariant after step"],
  unwindset={"h_manage_srcs.0": 9})

PROPS["C09"]["level_text"] += (" manage_srcs() (two nested loop contracts, any number of sources per kind): a stop empties every per-kind set (each source removed exactly once, pending messages of the "
                               "module destroyed), start/resume/pause leave the registry exactly as it is and add / remove every registered source to / from the poll set exactly once.")
U("src.len_u", src="units/src_unit.c", harness="h_src_len_u", enforce="m_mod_src_len", loop_contracts=True, defines=["V_SRCLENU_UNIT"], logctx="CORE",
  replace=["m_ctx", "m_mod_is", "m_map_itr_new", "m_map_itr_next", "m_map_itr_get_data", "m_bst_itr_new", "m_bst_itr_next", "m_bst_itr_get_data"],
  props=["C09", "C04"], contract_files=ABS + ["contracts/srclen.contracts.h"], native=False, timeout=600, min_obligations=30, must_have=["invariant after step"], unwindset={"h_src_len_u.0": 9})

PROPS["C09"]["level_text"] = PROPS["C09"]["level_text"].replace("m_mod_src_len() is a BOUNDED stand-in (<= 2 sources per kind, stub iterators): the count for one kind is the size of that kind's set, internal sources excluded.",
    "m_mod_src_len() (three loop contracts over abstract iterators, any number of sources): exactly the elements of the set(s) asked for are examined, each once, and the answer is the number of those that are not library-internal.")
PROPS["C09"]["not_decided"] = ["that the BST behind the abstract keyed set is a set for > K nodes (C11 is bounded)", "m_mod_ps_unsubscribe", "one-shot removal in recv_events for batches of more than 2 events (bounded stand-in)"]
U("thpool.add_threads", src="units/thpool_unit.c", harness="h_pool_spawn", enforce="add_threads", loop_contracts=True, defines=["V_POOL_SPAWN"], logctx="THPOOL",
  replace=["v_attr_init", "v_attr_destroy", "v_attr_setdetachstate", "v_thread_create", "m_list_insert"], props=["C06", "C04"], contract_files=THP, native=False, timeout=300, min_obligations=20,
  must_have=["invariant after step"])
U("thpool.new", src="units/thpool_unit.c", harness="h_pool_new", enforce="m_thpool_new", defines=["V_POOL_NEW", "V_POOL_SPAWN_CALLEE_OFF"], logctx="THPOOL",
  replace=["m_list_new", "m_queue_new", "v_mutex_init", "v_cond_init", "add_threads", "m_thpool_free"], props=["C06", "C04"], contract_files=THP, native=False, timeout=300, min_obligations=20)

PROPS["C06"]["level_text"] += (" add_threads() (loop contract, any number of workers): every created worker runs the pool loop of this pool and is recorded in the thread list exactly once, creation stops "
                               "at the first failure -- a refused creation (the slot is given back) or a missing slot (ENOMEM, no thread is created on it; fix 9141b18) at any symbolic attempt --, which leaves no record; m_thpool_add() of a lazy pool refuses the task when the worker it needed could not be spawned; m_thpool_new(): a pool comes back fully built with its configured size and flags (workers spawned unless lazy) or is torn down and not returned.")
PROPS["C06"]["not_decided"] = ["interleaving semantics beyond the lock-discipline argument; deadlock freedom / lost wake-ups (liveness)",
                               "detached pools are a recorded known finding"]
U("ps.unsubscribe", src="units/ps_unit.c", harness="h_unsubscribe", enforce="m_mod_ps_unsubscribe", defines=["V_UNSUB_UNIT"], logctx="CORE",
  replace=["m_ctx", "m_mod_is", "fetch_ms", "m_map_remove", "m_map_len", "m_map_free"], props=["C09", "C15", "C18", "C04"], contract_files=SUBSC, native=False, timeout=300, min_obligations=20)

PROPS["C09"]["level_text"] += " m_mod_ps_unsubscribe(): exactly one removal under the caller's topic; a present subscription goes (and the table with the last one), an absent one fails without effect."
PROPS["C09"]["not_decided"] = ["that the BST behind the abstract keyed set is a set for > K nodes (C11 is bounded)", "one-shot removal in recv_events for batches of more than 2 events (bounded stand-in)"]
# (evts.unstash with a loop contract: retried with the lessons of round 2 -- explicit ghost frames, pointer_equals, count-only release -- symbolic execution now finishes but the SAT
# reduction runs out of 12 GB after 7 min; not registered, the bounded real-code unit evts.unstash_real stands)
U("ctx.ctx_new", src="units/ctx_unit.c", harness="h_ctx_new", enforce="ctx_new", defines=["V_CTXAPI_UNIT", "V_CTXNEW_UNIT"], logctx="CORE",
  replace=["m_mem_new", "poll_create", "m_map_new", "mem_strdup", "fs_create", "v_pthread_setspecific", "m_mem_unref"], props=["C07", "C04"], contract_files=CTXAPI, native=False, timeout=300, min_obligations=20)

PROPS["C07"]["level_text"] += (" ctx_new(): the fresh context becomes the thread's context only when every construction stage succeeded (IDLE, empty, name / flags / user data as given, one registration "
                               "reference); a failing stage releases it exactly once and leaves the thread without context.")
PROPS["C07"]["not_decided"] = ["ctx_dtor() internals (poll_destroy, map free)", "that m_map_iterate(ctx_destroy_mods) reaches every module (C05 bounded)",
                               "allocation failure of the module table inside ctx_new (returns 0 without a context: seen, not under an obligation -- allocation failure is not modelled in the core units)"]
# (a real-code unit for process_fd/tmr/sgn/... was tried and dropped: the functions write THROUGH non-first members of the event's union of pointers, which CBMC 6.11 mis-models even with
# --no-propagation -- three of seven kinds reported values the code cannot produce; left under not_decided of C03 rather than registered with a false alarm)
U("poll.create", src="units/poll_unit.c", harness="h_poll_create", enforce="poll_create", defines=["V_POLLCD_UNIT"], replace=["v_epoll_create1"], logctx="CORE",
  props=["C20", "C07", "C04"], contract_files=POLLC, native=False, timeout=300, min_obligations=10)
U("poll.destroy", src="units/poll_unit.c", harness="h_poll_destroy", enforce="poll_destroy", defines=["V_POLLCD_UNIT"], replace=["v_close"], logctx="CORE",
  props=["C20", "C07", "C04"], contract_files=POLLC, native=False, timeout=300, min_obligations=10)
U("ctx.ctx_dtor", src="units/ctx_unit.c", harness="h_ctx_dtor", enforce="ctx_dtor", defines=["V_CTXAPI_UNIT", "V_CTXDTOR_UNIT"], logctx="CORE",
  replace=["deregister_ctx_src", "m_map_free", "poll_destroy", "fs_destroy"], props=["C20", "C07", "C04"], contract_files=CTXAPI, native=False, timeout=300, min_obligations=20)

PROPS["C20"]["level_text"] += (" poll_create()/poll_destroy() (real epoll.c): one poll descriptor per context, closed exactly once with it; ctx_dtor(): the tick source is removed while the poll set still "
                               "exists, then the poll descriptor goes -- nothing the context opened survives it.")
PROPS["C20"]["not_decided"] = ["pid sources (descriptor made through variadic syscall())", "_pipe/init_pubsub_fd (the module's pipe is made with pipe(); its read end is owned by an auto-close source, its write end is closed by reset_module)",
                               "m_ctx_fd", "whole-program 'all closed at the end' follows from per-object ownership only by argument"]
PROPS["C07"]["not_decided"] = ["that m_map_iterate(ctx_destroy_mods) reaches every module (C05 bounded)",
                               "allocation failure of the module table inside ctx_new (returns 0 without a context: seen, not under an obligation -- allocation failure is not modelled in the core units)"]
PROPS["C07"]["level_text"] += " ctx_dtor(): module table, poll plugin data and (when owned) name / user data are released exactly once."

# ---- rounds 6-7 (continuation session)
PROPS["C01"]["not_decided"].append("that a poll batch made only of context-private events (tick, fs request) also ends with an evaluation pass of the IDLE modules (seed C01-ctx-private-events-not-counted-skip-evaluation is NOT reported)")
PROPS["C19"]["level_text"] += (" fetch_sub() (loop contract, any number of subscriptions) is judged for C19 too, on a user topic or a system topic: a system notification reaches pattern subscribers through the same"
                               " exact-then-first-matching-pattern lookup as any topic.")
PROPS["C04"]["level_text"] += (" m_mod_ps_subscribe() on the real code with the first and/or second allocation of the call failing: every compiled pattern is owned by the stored subscription or released (fix 6ed9a0f);"
                               " add_threads(): no thread is ever created on a slot that could not be allocated (fix 9141b18); register_mod_src(): a candidate the set accepted is never released by the caller.")
PROPS["C07"]["level_text"] += " stop() is judged for C07 too: a RUNNING or PAUSED module is stopped through its stop callback, exactly once."
