"""Registry of proof units.  One unit = one harness entry point, normally one function under --enforce-contract with
its contracted callees replaced by their contracts.  `props` = properties whose untagged (safety/frame) obligations the
unit contributes to; tagged obligations (/*@Cxx.name*/) count only for the property named in the tag."""

TRUSTED_BASE = [
    "CBMC 6.11.0: C front end, goto-instrument --dfcc contract instrumentation, SAT back end (CaDiCaL), its memory model (objects+offsets), x86-64 LP64",
    "stubs in /verif/stubs (allocator forwards to CBMC's malloc/calloc/free models; logger no-op; see DESIGN.md 2.4)",
    "build configuration verified: -DNDEBUG -D_GNU_SOURCE -std=gnu11, Linux/epoll plugin, fs_noop (as the pinned _build)",
]
ASSUMPTIONS = [
    "the configured allocator returns max_align_t-aligned, non-overlapping objects (as C requires of calloc/malloc)",
    "callers respect the documented preconditions encoded in each contract's requires clause",
]

PROPS = {}
NOT_APPLICABLE = {}
HOOK_COMMITS = []
_UNITS = []


def U(name, **kw):
    kw["name"] = name
    kw.setdefault("replace", [])
    kw.setdefault("props", [])
    _UNITS.append(kw)


def all_units():
    return list(_UNITS)


# =====================================================================================================
# C10  ref-counted blocks  (Lib/mem/mem.c) -- idiom A, full domain
# =====================================================================================================
PROPS["C10"] = {
    "level": "proof",
    "level_text": "Every function of Lib/mem/mem.c (m_mem_new/ref/unref/unrefp/size) is verified against a strongest-postcondition contract "
                  "for all arguments and all block states (any size up to 2^40, any padding, any reference count, destructor or not, NULL); "
                  "frames are checked, so histories over populations of blocks follow by induction. Loop-free code, full symbolic domain: no bound other than the size cap.",
    "level_note": "Trusted: CBMC 6.11 + its malloc/calloc/free models standing for the configured allocator (assumed to return max_align_t-aligned objects); "
                  "destructor stub records its argument and checks the block is still valid when it runs.",
    "design_ref": "DESIGN.md 4 (C10)",
    "not_decided": ["that the allocator installed through m_set_memhook returns max_align_t-aligned memory (assumed)",
                    "requested sizes above 2^40 bytes (stated bound of the contracts; the statement ranges over 0..several KiB)"],
    "explanation": "every function of Lib/mem/mem.c is verified against its contract for all arguments and all block states "
                   "(size, padding, reference count, destructor present/absent, NULL); histories follow by induction over calls "
                   "because each contract re-establishes the block representation predicate and has a checked frame.",
}
for fn in ("new", "ref", "unref", "unrefp", "size"):
    U("mem." + fn, src="units/mem.c", harness="h_mem_" + fn, enforce="m_mem_" + fn, logctx="MEM", props=["C10", "C04"],
      contract_files=["contracts/mem.contracts.h"], native=True, timeout=300, min_obligations=20, trace_defines=["V_MEM_MAX_LOG=10"])
