#!/usr/bin/env python3
import json, os, sys, tempfile, shutil
VERIF = os.path.dirname(os.path.dirname(os.path.abspath(__file__)))
sys.path.insert(0, os.path.join(VERIF, "lib"))
import vdriver, units as U
doc = json.load(open(sys.argv[1]))
u = [x for x in U.all_units() if x["name"] == doc["unit"]][0]
vdriver.WORKROOT = tempfile.mkdtemp(prefix="verif_replay_")
try:
    ob = {"tags": doc.get("tags", []), "name": doc["cbmc_property"], "unit": doc["unit"], "function": ""}
    d = os.path.dirname(os.path.abspath(sys.argv[1]))
    info = vdriver.native_replay(u, ob, doc.get("counterexample_inputs", {}), d)
    print(json.dumps(info, indent=1))
    print("obligation:", doc["obligation"], "|", doc["clause"])
    if not info.get("attempted"):
        print("REPLAY: no native replay for this unit (%s); verifier output is in the replay file" % info.get("why_not"))
        sys.exit(2)
    print("REPLAY: %s" % ("violation reproduced on the real code" if info.get("confirmed") else "not reproduced natively"))
    sys.exit(1 if info.get("confirmed") else 0)
finally:
    shutil.rmtree(vdriver.WORKROOT, ignore_errors=True)
