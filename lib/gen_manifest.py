#!/usr/bin/env python3
"""writes /verif/MANIFEST.json from lib/units.py (PROPS) -- run by hand after editing the registry."""
import json, os, sys
VERIF = os.path.dirname(os.path.dirname(os.path.abspath(__file__)))
sys.path.insert(0, os.path.join(VERIF, "lib"))
import units as U

props = [json.loads(l) for l in open(os.path.join(VERIF, "properties.jsonl"))]
claimed = [p["id"] for p in props if p["id"] in U.PROPS and any(p["id"] in u["props"] for u in U.all_units()) and not U.PROPS[p["id"]].get("unclaimed") and U.PROPS[p["id"]].get("level_text", "TODO") != "TODO"]
checks = []
for pid in claimed:
    sp = U.PROPS[pid]
    checks.append({
        "property_id": pid,
        "quick_cmd": "./vcheck %s --tier quick" % pid,
        "thorough_cmd": "./vcheck %s --tier thorough" % pid,
        "evidence_file": "/verif/evidence/%s.json" % pid,
        "replay_cmd_template": "./vreplay {path}",
        "engine": "cbmc-contracts",
        "level_claimed": {"category": sp.get("level", "proof"), "text": sp["level_text"], "design_ref": sp.get("design_ref", "DESIGN.md section 4")},
        "level_note": sp["level_note"],
        "technique": sp.get("technique", "contract-based deductive verification: CBMC code contracts on the real C sources, enforced per function with goto-instrument --dfcc"),
    })
na = [{"property_id": p["id"], "reason": U.NOT_APPLICABLE.get(p["id"], "not built yet in this round: no proof unit registered for it (see DESIGN.md section 7 build order); nothing is claimed")}
      for p in props if p["id"] not in claimed]
man = {
    "version": 1,
    "setup_cmd": "./setup.sh",
    "hooks": {"guard": "LIBMODULE_VERIF",
              "enable": "proof units are compiled by goto-cc with -DLIBMODULE_VERIF -include of the loop-spec header; the shipped library is never built with the guard",
              "baseline_off_cmd": "cmake --build /repo/_build && ctest --test-dir /repo/_build -j8 --timeout 900",
              "source_commits": U.HOOK_COMMITS, "add_only": False},
    "engines": [{"name": "cbmc-contracts", "path": "/verif/lib/vdriver.py", "serves_properties": claimed,
                 "kind_free_text": "goto-cc -> goto-instrument --dfcc (enforce/replace/loop contracts) -> cbmc 6.11 SAT; native gcc+ASan replay of counterexamples"}],
    "checks": checks,
    "not_applicable": na,
    "notes": "Hook commits insert one macro invocation M_VERIF_LOOP(name) between a loop header and its body (so add_only=false: existing lines gain a token); with the guard off it expands to nothing and setup_cmd checks that the preprocessed token stream of every touched file is unchanged. Contracts live in /verif/contracts and are attached to the real functions by re-declaration after #include of the real /repo translation unit (nothing extracted, nothing dropped). fix: commits in /repo are listed in known_findings.json.",
}
json.dump(man, open(os.path.join(VERIF, "MANIFEST.json"), "w"), indent=1)
print("claimed:", claimed)
