#!/bin/bash
# For every hook commit: with the guard OFF the preprocessed token stream of each touched source file is identical to the one
# before the commit (so the shipped library is byte-for-byte the same program).  usage: check_hooks_inert.sh <commit>...
set -e
REPO=${VERIF_REPO:-/repo}
L=$REPO/Lib
INC="-I$L -I$L/utils -I$L/mem -I$L/mem/public -I$L/structs -I$L/structs/public -I$L/core -I$L/core/public -I$L/core/fs -I$L/core/poll -I$L/thpool -I$L/thpool/public"
T=$(mktemp -d); trap 'rm -rf $T' EXIT
rc=0
for c in "$@"; do
  for f in $(git -C $REPO show --name-only --format= $c | grep '\.c$'); do
    d=$(dirname $REPO/$f)
    git -C $REPO show $c^:$f > $T/before.c; git -C $REPO show $c:$f > $T/after.c
    for v in before after; do gcc -E -P -DNDEBUG -D_GNU_SOURCE -std=gnu11 -I$d $INC $T/$v.c 2>/dev/null | tr -s ' \t\n' ' ' > $T/$v.i; done
    if ! cmp -s $T/before.i $T/after.i; then echo "hook commit $c changes the guard-off token stream of $f"; rc=1; fi
  done
done
[ $rc = 0 ] && echo "hooks inert with guard off: ok ($*)"
exit $rc
