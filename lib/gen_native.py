#!/usr/bin/env python3
"""gen_native.py -- turns a contracts header (V_CONTRACT blocks) into checking wrappers for the native
replay build: for every contracted function f a `static <ret> v_wrap_f(<params>)` that evaluates the requires
clauses (exit 3 if the replayed pre-state does not satisfy them), snapshots every V_OLD(e), calls the REAL f,
and evaluates every V_ENSURES clause, reporting the clause's tag through v_native_fail().  V_ASSIGNS/V_FREES are
frame conditions and are not checked natively (ASan covers frees).  Everything outside V_CONTRACT blocks is copied
verbatim, so the representation predicates are literally the same text in both modes."""
import os, re, sys

CL = ("V_REQUIRES", "V_ENSURES", "V_ASSIGNS", "V_FREES")


def balanced(s, i):
    """s[i] == '(' -> index just after the matching ')'"""
    d = 0
    j = i
    while j < len(s):
        c = s[j]
        if c == '(':
            d += 1
        elif c == ')':
            d -= 1
            if d == 0:
                return j + 1
        elif c == '"':
            j += 1
            while s[j] != '"':
                j += 2 if s[j] == '\\' else 1
        j += 1
    raise ValueError("unbalanced parentheses")


def split_params(p):
    out, d, cur = [], 0, ""
    for c in p:
        if c == ',' and d == 0:
            out.append(cur.strip()); cur = ""
        else:
            if c in "([":
                d += 1
            if c in ")]":
                d -= 1
            cur += c
    if cur.strip():
        out.append(cur.strip())
    return out


def subst_old(expr, olds):
    while True:
        k = expr.find("V_OLD(")
        if k < 0:
            return expr
        e = balanced(expr, k + 5)
        inner = expr[k + 6:e - 1]
        inner = subst_old(inner, olds)
        if inner not in olds:
            olds.append(inner)
        expr = expr[:k] + "v_old_%d" % olds.index(inner) + expr[e:]


def gen_block(block):
    m = re.search("|".join(CL), block)
    decl = block[:m.start()].strip() if m else block.strip()
    po = decl.index("(")
    pe = balanced(decl, po)
    head = decl[:po].strip()
    name = re.findall(r"[A-Za-z_]\w*", head)[-1]
    ret = head[:head.rindex(name)].strip()
    ret = re.sub(r"\b(static|inline)\b", "", ret).strip()
    params = split_params(decl[po + 1:pe - 1])
    if params == ["void"]:
        params = []
    args = []
    for p in params:
        fp = re.search(r"\(\s*\*\s*(\w+)\s*\)", p)
        args.append(fp.group(1) if fp else re.findall(r"[A-Za-z_]\w*", p)[-1])
    clauses = []
    i = m.start() if m else len(block)
    while i < len(block):
        m2 = re.compile("|".join(CL)).search(block, i)
        if not m2:
            break
        e = balanced(block, m2.end())
        body = block[m2.end() + 1:e - 1]
        rest = block[e:]
        nxt = re.search("|".join(CL), rest)
        tail = rest[:nxt.start()] if nxt else rest
        tag = re.search(r"/\*@([^*]+)\*/", tail)
        clauses.append((m2.group(0), body.strip(), tag.group(1) if tag else ""))
        i = e
    olds, ens = [], []
    for kind, body, tag in clauses:
        if kind == "V_ENSURES":
            ens.append((subst_old(body, olds).replace("V_RET", "v_ret"), tag, body))
    void = ret.replace("static", "").replace("inline", "").strip() == "void"
    o = []
    o.append("static %s v_wrap_%s(%s) {" % (ret, name, ", ".join(params) if params else "void"))
    for kind, body, tag in clauses:
        if kind == "V_REQUIRES":
            o.append("    if (!(%s)) { fprintf(stderr, \"native: precondition of %s not satisfied by the replayed pre-state\\n\"); exit(3); }" % (body, name))
    for k, e in enumerate(olds):
        o.append("    __typeof__(%s) v_old_%d = (%s);" % (e, k, e))
    call = "%s(%s)" % (name, ", ".join(args))
    o.append("    %s;" % (call if void else "__typeof__(%s) v_ret = %s" % (call, call)))
    for expr, tag, orig in ens:
        o.append("    if (!(%s)) v_native_fail(\"%s\", %s);" % (expr, tag or name + ".ensures", '"' + orig.replace("\\", "\\\\").replace('"', '\\"').replace("\n", " ")[:300] + '"'))
    if not void:
        o.append("    return v_ret;")
    o.append("}")
    return name, "\n".join(o)


def convert(text):
    out, i, names = [], 0, []
    for m in re.finditer(r"^V_CONTRACT\s*$", text, re.M):
        if m.start() < i:
            continue
        out.append(text[i:m.start()])
        # find terminating ';' at depth 0
        j, d = m.end(), 0
        while True:
            c = text[j]
            if c == '(':
                d += 1
            elif c == ')':
                d -= 1
            elif c == ';' and d == 0:
                break
            elif text.startswith("/*", j):
                j = text.index("*/", j) + 1
            j += 1
        block = text[m.end():j]
        name, code = gen_block(block)
        names.append(name)
        out.append(code + "\n")
        i = j + 1
    out.append(text[i:])
    return "".join(out), names


def generate_for_unit(u, verif, outdir):
    for c in u.get("contract_files", []):
        src = os.path.join(verif, c)
        txt, names = convert(open(src).read())
        dst = os.path.join(outdir, os.path.basename(c).replace(".contracts.h", ".native.h"))
        with open(dst, "w") as f:
            f.write("/* GENERATED from %s by lib/gen_native.py -- do not edit */\n#include <stdio.h>\n" % c + txt)


if __name__ == "__main__":
    txt, names = convert(open(sys.argv[1]).read())
    sys.stdout.write(txt)
