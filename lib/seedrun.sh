#!/bin/bash
# usage: seedrun.sh <patch> <PROP> [vcheck args...]   -- apply a seeded change to /repo, run the property's check, revert
P=$1; shift
git -C /repo apply "$P" || exit 2
/verif/vcheck "$@" --no-evidence -j 16 2>&1 | grep "VIOLATION\|KNOWN\|UNDECIDED\|obligations discharged" | cut -c1-220 | head -8
git -C /repo checkout -- .
git -C /repo status --short | grep -v _build
