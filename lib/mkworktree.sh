#!/bin/bash
# usage: mkworktree.sh <dir> <commit>   -- scratch worktree of /repo with the cmake-generated public headers copied in
set -e
git -C /repo worktree add -q "$1" "$2"
cp /repo/Lib/core/public/module/cmn.h /repo/Lib/core/public/module/ctx.h "$1/Lib/core/public/module/"
