#!/usr/bin/env python3
"""C14 supporting static fact: inventory of every object of static storage duration in the library that is WRITABLE (lives in .data/.bss),
rebuilt from /repo's current sources (gcc -c per translation unit, nm).  A context running on one thread and a context running on another
share exactly these objects; each must be on the reviewed allow-list (initialised once / read-only in practice / synchronised), otherwise
contexts are not independent.  Function-scope statics show up as name.<n>.  Exit: 0 ok, 1 new writable static (prints VIOLATION), 2 toolchain."""
import json, os, re, subprocess, sys, tempfile, time, shutil
VERIF = os.path.dirname(os.path.dirname(os.path.abspath(__file__)))
REPO = os.environ.get("VERIF_REPO", "/repo")
L = os.path.join(REPO, "Lib")
INC = ["-I" + os.path.join(L, d) for d in ("", "utils", "mem", "mem/public", "structs", "structs/public", "core", "core/public", "core/fs", "core/poll", "thpool", "thpool/public")]
SRCS = ["mem/mem.c", "utils/mem.c", "utils/log.c", "utils/utils.c", "structs/queue.c", "structs/stack.c", "structs/list.c", "structs/bst.c", "structs/map.c",
        "thpool/thpool.c", "core/ctx.c", "core/mod.c", "core/src.c", "core/ps.c", "core/evts.c", "core/main.c", "core/fs/fs_noop.c", "core/poll/epoll.c", "core/poll/cmn_linux.c"]
# reviewed allow-list: (file, symbol) -> why sharing it between threads is harmless
ALLOW = {
    ("utils/mem.c", "memhook"): "allocator hook: written only by m_set_memhook() (documented: call before anything else)",
    ("utils/log.c", "libmodule_logger"): "logger table: written only by the library constructor",
    ("core/ctx.c", "key"): "pthread TLS key, created once under pthread_once",
    ("core/ctx.c", "key_once"): "pthread_once control word (synchronised by pthread_once)",
    ("core/src.c", "src_cmp_map"): "table of comparator functions, never written after static initialisation",
    ("core/src.c", "src_procs_map"): "table of process callbacks, never written after static initialisation",
    ("core/src.c", "src_names"): "table of name strings, never written after static initialisation",
    ("core/mod.c", "errors"): "function-scope tables of message strings in start()/stop(), never written",
    ("utils/log.c", "lvl_names"): "table of level names, never written",
    ("utils/log.c", "ctx_names"): "table of context names, never written",
}

def main():
    prop = "C14"
    t0 = time.time()
    wd = tempfile.mkdtemp(prefix="verif_c14_")
    found, viol = [], []
    try:
        for s in SRCS:
            src = os.path.join(L, s)
            if not os.path.exists(src):
                print("UNDECIDED property=C14 unit=static-inventory reason=anchor-missing: %s" % s); return 2, [], []
            obj = os.path.join(wd, s.replace("/", "_") + ".o")
            ctxdef = {"mem": "MEM", "structs": "STRUCTS", "thpool": "THPOOL", "core": "CORE"}.get(s.split("/")[0], "OTHER")
            p = subprocess.run(["gcc", "-c", "-O0", "-std=gnu11", "-D_GNU_SOURCE", "-DNDEBUG", "-DLIBMODULE_LOG_CTX=" + ctxdef, "-I" + os.path.dirname(src)] + INC + [src, "-o", obj],
                               stdout=subprocess.PIPE, stderr=subprocess.PIPE, text=True)
            if p.returncode != 0:
                print("UNDECIDED property=C14 unit=static-inventory reason=toolchain: gcc failed on %s: %s" % (s, p.stderr[-300:])); return 2, [], []
            nm = subprocess.run(["nm", obj], stdout=subprocess.PIPE, text=True).stdout
            for line in nm.splitlines():
                m = re.match(r"^[0-9a-f]*\s+([bBdDcC])\s+(\S+)$", line)
                if not m:
                    continue
                sym = m.group(2); base = re.sub(r"\.\d+$", "", sym)
                found.append({"file": s, "symbol": sym, "section": m.group(1)})
                if (s, base) not in ALLOW:
                    viol.append({"file": s, "symbol": sym})
    finally:
        shutil.rmtree(wd, ignore_errors=True)
    return (1 if viol else 0), found, viol

if __name__ == "__main__":
    rc, found, viol = main()
    json.dump({"found": found, "violations": viol, "allow": {"%s:%s" % k: v for k, v in ALLOW.items()}}, sys.stdout)
    sys.exit(rc)
