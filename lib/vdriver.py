#!/usr/bin/env python3
"""vdriver.py -- runs the contract proof units of one property and turns CBMC verdicts into the
interface of the brief (exit codes, VIOLATION / KNOWN-FINDING lines, evidence, replay files).

Pipeline per proof unit (DESIGN.md 2.1):
    goto-cc (real /repo source + contracts + harness)  ->  goto-instrument --dfcc (enforce / replace /
    loop contracts)  ->  cbmc (SAT, all safety checks on)  ->  obligation table.

Exit codes:  0 every obligation discharged (known findings reported, not failing)
             1 an obligation was REFUTED by the verifier (VIOLATION line printed)
             2 undecided: timeout / out of memory / tool error / vacuity guard tripped (never a violation)
"""
import argparse, json, os, re, resource, shutil, subprocess, sys, tempfile, time
from concurrent.futures import ThreadPoolExecutor

VERIF = os.path.dirname(os.path.dirname(os.path.abspath(__file__)))
REPO = os.environ.get("VERIF_REPO", "/repo")
sys.path.insert(0, os.path.join(VERIF, "lib"))
import units as UNITS  # noqa: E402
import gen_native      # noqa: E402

LIBDIRS = ["", "utils", "mem", "mem/public", "structs", "structs/public", "core", "core/public",
           "core/fs", "core/poll", "thpool", "thpool/public"]

CBMC_CHECKS = ["--bounds-check", "--pointer-check", "--pointer-overflow-check", "--signed-overflow-check",
               "--conversion-check", "--div-by-zero-check", "--undefined-shift-check"]

MAX_REPLAYS = 3   # replay files per unit and run; further refuted obligations of the unit are listed inside them
NATIVE_CACHE = {}
TAG_RE = re.compile(r"/\*@([^*]+)\*/")


def inc_flags():
    fl = ["-I" + os.path.join(VERIF, d) for d in ("stubs", "contracts", "units")]
    fl += ["-I" + os.path.join(REPO, "Lib", d) for d in LIBDIRS]
    return fl


def limit_as(gb):
    def f():
        resource.setrlimit(resource.RLIMIT_AS, (gb << 30, gb << 30))
    return f


def run(cmd, timeout, mem_gb=12, cwd=None):
    t0 = time.time()
    try:
        p = subprocess.run(cmd, stdout=subprocess.PIPE, stderr=subprocess.PIPE, timeout=timeout, cwd=cwd,
                           preexec_fn=limit_as(mem_gb), text=True, errors="replace")
        return p.returncode, p.stdout, p.stderr, time.time() - t0
    except subprocess.TimeoutExpired as e:
        return -9, (e.stdout or ""), "TIMEOUT", time.time() - t0


class UnitResult:
    def __init__(self, unit):
        self.unit = unit
        self.status = "ok"        # ok | undecided
        self.reason = ""
        self.obligations = []     # dicts: id, tags, status, description, file, line, function, clause, bounded
        self.cover = []           # (name, reached)
        self.canary = None
        self.solver_s = 0.0
        self.total_s = 0.0
        self.cmds = []
        self.log_tail = ""
        self.workdir = None
        self.notes = []


def src_line(path, line):
    try:
        with open(path, errors="replace") as f:
            for i, l in enumerate(f, 1):
                if i == line:
                    return l.rstrip("\n")
    except OSError:
        pass
    return ""


def clause_text(path, line):
    """clause starting on `line` up to the line carrying the tag comment (multi-line ensures)."""
    try:
        lines = open(path, errors="replace").read().split("\n")
    except OSError:
        return "", []
    out = []
    for i in range(line - 1, min(line + 8, len(lines))):
        out.append(lines[i].strip())
        if TAG_RE.search(lines[i]):
            break
        if i > line - 1 and re.match(r"\s*(V_ENSURES|V_REQUIRES|V_ASSIGNS|V_FREES|;)", lines[i + 1] if i + 1 < len(lines) else ";"):
            break
    text = " ".join(out)
    return text, TAG_RE.findall(text)


def build_unit(u, tier, wd, extra_defs=()):
    """goto-cc + goto-instrument. returns (path or None, reason, cmds)"""
    cmds = []
    src = os.path.join(VERIF, u["src"])
    gb = os.path.join(wd, "u.gb")
    defs = ["-DV_CBMC", "-DLIBMODULE_VERIF", "-DNDEBUG", "-D_GNU_SOURCE", "-DLIBMODULE_LOG_CTX=" + u.get("logctx", "CORE"),
            "-std=gnu11"] + ["-D" + d for d in u.get("defines", [])] + ["-D" + d for d in extra_defs]
    if tier == "thorough":
        defs += ["-D" + d for d in u.get("defines_thorough", [])]
    else:
        defs += ["-D" + d for d in u.get("defines_quick", [])]
    cmd = ["goto-cc"] + defs + inc_flags() + ["--function", u["harness"], src, "-o", gb]
    cmds.append(" ".join(cmd))
    rc, out, err, _ = run(cmd, 120)
    if rc != 0:
        return None, "toolchain: goto-cc failed: " + (out + err)[-1500:], cmds
    if u.get("plain") and u.get("assert_false_bodies"):
        # every function without a body gets `assert(false)`: reaching any callee outside the unit is an obligation failure
        igb = os.path.join(wd, "u.i.gb")
        cmd = ["goto-instrument", "--generate-function-body", u["assert_false_bodies"], "--generate-function-body-options", "assert-false", gb, igb]
        cmds.append(" ".join(cmd))
        rc, out, err, _ = run(cmd, 300)
        if rc != 0 or not os.path.exists(igb):
            return None, "toolchain: goto-instrument --generate-function-body failed: " + (out + err)[-1500:], cmds
        return igb, "", cmds
    if u.get("plain") and u.get("replace_calls"):
        igb = os.path.join(wd, "u.i.gb")
        cmd = ["goto-instrument"] + sum((["--replace-calls", "%s:%s" % (a, b)] for a, b in u["replace_calls"].items()), []) + [gb, igb]
        cmds.append(" ".join(cmd))
        rc, out, err, _ = run(cmd, 300)
        if rc != 0 or not os.path.exists(igb):
            return None, "toolchain: goto-instrument --replace-calls failed: " + (out + err)[-1500:], cmds
        return igb, "", cmds
    if u.get("plain"):
        return gb, "", cmds
    igb = os.path.join(wd, "u.i.gb")
    if u.get("pre_unwindset"):
        # a constant-bound loop AROUND a loop that carries a loop contract is unwound completely first (with its unwinding assertion), so that the
        # contract instrumentation only sees loops that have contracts
        pgb = os.path.join(wd, "u.p.gb")
        cmd = ["goto-instrument"] + sum((["--unwindset", "%s:%d" % (k, v)] for k, v in u["pre_unwindset"].items()), []) + ["--unwinding-assertions", gb, pgb]
        cmds.append(" ".join(cmd))
        rc, out, err, _ = run(cmd, 300)
        if rc != 0 or not os.path.exists(pgb):
            return None, "toolchain: goto-instrument --unwindset failed: " + (out + err)[-1500:], cmds
        gb = pgb
    cmd = ["goto-instrument", "--no-malloc-may-fail", "--dfcc", u["harness"]]
    if u.get("enforce"):
        cmd += ["--enforce-contract-rec" if u.get("enforce_rec") else "--enforce-contract", u["enforce"]]
    for r in u.get("replace", []):
        cmd += ["--replace-call-with-contract", r]
    if u.get("loop_contracts"):
        cmd += ["--apply-loop-contracts"]
    cmd += [gb, igb]
    cmds.append(" ".join(cmd))
    rc, out, err, _ = run(cmd, 300)
    if rc != 0:
        return None, "toolchain: goto-instrument failed: " + (out + err)[-1500:], cmds
    if re.search(r"no body for|ignoring", out + err):
        m = re.search(r".*(no body for|ignoring).*", out + err)
        if not u.get("allow_nobody"):
            return None, "vacuity-guard: goto-instrument said: " + m.group(0)[:300], cmds
    return igb, "", cmds


def cbmc_cmd(u, tier, binary, extra=()):
    checks = [c for c in CBMC_CHECKS if c not in u.get("drop_checks", [])]
    cmd = ["cbmc", binary, "--no-malloc-may-fail"] + checks + ["--object-bits", str(u.get("object_bits", 12)), "--json-ui"]
    solver = u.get("solver", "cadical")
    if os.environ.get("VERIF_SOLVER"):
        solver = os.environ["VERIF_SOLVER"]
    if solver == "kissat":
        cmd += ["--external-sat-solver", "kissat"]
    elif solver != "minisat":
        cmd += ["--sat-solver", solver]
    uw = u.get("unwind_thorough" if tier == "thorough" else "unwind", u.get("unwind"))
    if uw:
        cmd += ["--unwind", str(uw), "--unwinding-assertions"]
    uws = u.get("unwindset_thorough", u.get("unwindset", {})) if tier == "thorough" else u.get("unwindset", {})
    for k, v in uws.items():
        cmd += ["--unwindset", "%s:%d" % (k, v)]
    if u.get("unwindset") and not uw:
        cmd += ["--unwinding-assertions"]
    if u.get("plain"):
        cmd += ["--drop-unused-functions"]
    cmd += list(u.get("cbmc_extra", [])) + list(extra)
    return cmd


def parse_json_ui(out):
    try:
        data = json.loads(out)
    except Exception:
        # truncated output: try to cut at last complete element
        return None
    res = {"results": None, "messages": [], "verdict": None}
    for el in data:
        if "result" in el:
            res["results"] = el["result"]
        if "cProverStatus" in el:
            res["verdict"] = el["cProverStatus"]
        if "messageText" in el:
            res["messages"].append(el["messageText"])
    return res


def run_unit(u, tier, keep=False, extra_defs=(), want_trace_for=None, relax_cover=False):
    r = UnitResult(u)
    t0 = time.time()
    if u.get("script"):
        return run_script_unit(u, r, t0)
    wd = tempfile.mkdtemp(prefix="vu_", dir=WORKROOT)
    r.workdir = wd
    try:
        binary, reason, cmds = build_unit(u, tier, wd, extra_defs)
        r.cmds = cmds
        if not binary:
            r.status, r.reason = "undecided", reason
            return r
        tmo = u.get("timeout_thorough" if tier == "thorough" else "timeout", u.get("timeout", 600))
        tmo = max(tmo, int(os.environ.get("VERIF_MIN_TIMEOUT", "900")))      # per-unit limits were measured on an idle machine: under load (parallel checks) leave ample room; a timeout is "undecided", never a verdict
        extra = []
        if want_trace_for:
            extra = ["--trace"] + sum((["--property", p] for p in want_trace_for), [])
        cmd = cbmc_cmd(u, tier, binary, extra)
        r.cmds.append(" ".join(cmd))
        rc, out, err, secs = run(cmd, tmo, u.get("mem_gb", 16))
        r.solver_s = secs
        if rc == -9:
            r.status, r.reason = "undecided", "timeout after %ds" % tmo
            return r
        parsed = parse_json_ui(out)
        if parsed is None or parsed["results"] is None:
            why = "oom" if ("bad_alloc" in err or "Out of memory" in err or rc in (-6, 134, 137)) else "toolchain"
            msgs = " | ".join((parsed or {}).get("messages", [])[-4:]) if parsed else (out[-600:] + err[-600:])
            r.status, r.reason = "undecided", "%s: cbmc rc=%d %s" % (why, rc, msgs[-800:])
            return r
        joined = " ".join(parsed["messages"])
        if re.search(r"warning: ignoring|no body for (function|callee)", joined) and not u.get("allow_nobody"):
            m = re.search(r"(warning: ignoring[^|]*|no body for[^|]*)", joined)
            r.status, r.reason = "undecided", "vacuity-guard: cbmc said: " + m.group(0)[:300]
            return r
        bounded = bool(u.get("bounded"))
        for pr in parsed["results"]:
            desc = pr.get("description", "")
            name = pr.get("property", "")
            st = pr.get("status", "")
            loc = pr.get("sourceLocation", {}) or {}
            f, line = loc.get("file", ""), int(loc.get("line", 0) or 0)
            if desc == "V_CANARY":
                r.canary = (st == "FAILURE")
                continue
            if desc.startswith("V_COVER:"):
                r.cover.append((desc[8:], st == "FAILURE"))
                continue
            tags, clause = [], ""
            if f and line and ("ensures" in desc or "requires" in desc or "precondition" in desc.lower()):
                clause, tags = clause_text(f, line)
            if not tags:
                tags = re.findall(r"\bC\d\d\.[A-Za-z0-9_.-]+", desc)
                if not tags and f and line:
                    tags = TAG_RE.findall(src_line(f, line))
            ob = {"name": name, "tags": tags, "status": st, "description": desc, "file": f, "line": line,
                  "function": loc.get("function", ""), "clause": clause, "bounded": bounded, "unit": u["name"]}
            if "trace" in pr:
                ob["trace"] = pr["trace"]
            if st == "FAILURE" and ".overflow." in name and "signed to unsigned type conversion" in desc and not tags:
                # converting a negative value to an unsigned type is fully defined in C (modular); only flagged by --conversion-check. Note, not judged.
                ob["status"] = "NOTE"
                r.notes.append("%s: %s (%s:%s)" % (name, desc, os.path.basename(f), line))
                continue
            if st == "FAILURE" and ".pointer_arithmetic." in name and "pointer outside object bounds" in desc and not tags:
                # forming (not dereferencing) a pointer just outside its object: undefined behaviour by the letter of C, but no
                # property in properties.jsonl forbids it (they speak about reads, writes and frees).  Reported as a note, not judged.
                ob["status"] = "NOTE"
                r.notes.append("%s: %s (%s:%s)" % (name, desc, os.path.basename(f), line))
                continue
            if st == "FAILURE" and "undefined function should be unreachable" in desc:
                # the code under proof now calls a function this unit has neither a body nor a contract for: the unit cannot judge it
                r.status, r.reason = "undecided", "toolchain: call to a function without body/contract in this unit: %s" % name
                ob["status"] = "UNKNOWN"
            if st == "FAILURE" and (".unwind." in name or "recursion" in name) :
                # an unwinding assertion that fails means the bound is too small for this code: undecided, never a violation
                r.status, r.reason = "undecided", "unwind-bound-too-small: %s (%s)" % (name, desc)
                ob["status"] = "UNKNOWN"
            if st not in ("SUCCESS", "FAILURE"):
                r.status, r.reason = "undecided", "property %s has status %s" % (name, st)
            if st == "FAILURE" and u.get("structure_dependent") and ob["status"] == "FAILURE":
                # an induction-step proof over a window of the data structure is tied to the recursion scheme of the function: when it no longer goes through
                # it says "this implementation has no such proof", not "the property is violated" (a correct re-implementation fails it too) -- undecided,
                # never accepted silently; the bounded units of the same function judge the behaviour itself
                r.status, r.reason = "undecided", "proof-does-not-carry-over: induction step %s fails on the current implementation (%s)" % (name, desc[:120])
                ob["status"] = "UNKNOWN"
            r.obligations.append(ob)
        # vacuity guards
        if r.status == "ok":
            if r.canary is not True and not u.get("no_canary"):
                r.status, r.reason = "undecided", "vacuous: canary after the call is unreachable (canary=%s)" % r.canary
            unreached = [n for n, ok in r.cover if not ok]
            if unreached and not relax_cover:     # (re-runs under assume(!class) of a known finding legitimately lose the cover points of that class)
                r.status, r.reason = "undecided", "vacuous: cover points not reachable: " + ",".join(unreached)
            if len(r.obligations) < u.get("min_obligations", 1):
                r.status, r.reason = "undecided", "vacuous: %d obligations generated, expected >= %d" % (
                    len(r.obligations), u.get("min_obligations", 1))
            need = u.get("must_have", [])
            descs = " ".join(o["description"] + " " + o["name"] for o in r.obligations)
            for n in need:
                if n not in descs:
                    r.status, r.reason = "undecided", "anchor-missing: no obligation mentioning '%s' was generated" % n
        return r
    finally:
        r.total_s = time.time() - t0
        if not keep:
            shutil.rmtree(wd, ignore_errors=True)


def run_script_unit(u, r, t0):
    """supporting static fact computed by a script from /repo's current sources; its findings become obligations"""
    cmd = [sys.executable, os.path.join(VERIF, u["script"])]
    r.cmds = [" ".join(cmd)]
    rc, out, err, secs = run(cmd, u.get("timeout", 300), 8)
    r.solver_s = secs; r.total_s = time.time() - t0
    if rc not in (0, 1):
        r.status, r.reason = "undecided", "toolchain: %s rc=%d %s" % (u["script"], rc, (out + err)[-400:])
        return r
    try:
        d = json.loads(out)
    except Exception:
        r.status, r.reason = "undecided", "toolchain: script output not json"
        return r
    bad = set((v["file"], v["symbol"]) for v in d["violations"])
    for f in d["found"]:
        st = "FAILURE" if (f["file"], f["symbol"]) in bad else "SUCCESS"
        r.obligations.append({"name": "static.%s.%s" % (f["file"], f["symbol"]), "tags": [u["tag"]], "status": st,
                              "description": "writable static-lifetime object %s in %s is on the reviewed allow-list (%s)" % (f["symbol"], f["file"], u["tag"]),
                              "file": os.path.join(REPO, "Lib", f["file"]), "line": 0, "function": "", "clause": "", "bounded": False, "unit": u["name"]})
    r.canary = True
    if len(r.obligations) < u.get("min_obligations", 1):
        r.status, r.reason = "undecided", "vacuous: inventory found %d objects" % len(r.obligations)
    return r


# ---------------------------------------------------------------------------------------------------
def trace_inputs(trace):
    """last value of every harness input (vin_*) in a CBMC json trace"""
    vals = {}
    for st in trace or []:
        if st.get("stepType") != "assignment":
            continue
        lhs = st.get("lhs", "")
        if lhs.startswith("vin_"):
            v = st.get("value", {})
            data = v.get("data")
            if data is None:
                continue
            if data in ("TRUE", "true"):
                data = "1"
            if data in ("FALSE", "false"):
                data = "0"
            try:
                if v.get("name") == "integer" and "binary" in v and not str(data).lstrip("-").isdigit():
                    data = str(int(v["binary"], 2))
                iv = int(str(data).rstrip("ulUL"))
                if iv < 0:
                    iv += 1 << int(v.get("width", 64))
                vals[lhs[4:]] = iv
            except Exception:
                pass
    return vals


def trace_summary(trace, limit=60):
    out = []
    for st in trace or []:
        if st.get("hidden") or st.get("internal"):
            continue
        t = st.get("stepType")
        loc = st.get("sourceLocation", {}) or {}
        where = "%s:%s" % (os.path.basename(loc.get("file", "")), loc.get("line", ""))
        if t == "assignment":
            v = st.get("value", {})
            out.append("%s  %s = %s" % (where, st.get("lhs", ""), v.get("data", v.get("name", "?"))))
        elif t in ("function-call", "function-return"):
            out.append("%s  %s %s" % (where, t, (st.get("function", {}) or {}).get("displayName", "")))
        elif t == "failure":
            out.append("%s  FAILURE %s" % (where, st.get("reason", "")))
    return out[-limit:]


def native_replay(u, ob, inputs, replay_dir):
    """compile the same unit natively (gcc, ASan+UBSan, real /repo source) and run the harness on the inputs."""
    info = {"attempted": False}
    if not u.get("native"):
        info["why_not"] = "unit has no native mode (pre-state built by is_fresh / callees replaced by contracts)"
        return info
    info["attempted"] = True
    key = (u["src"], tuple(u.get("defines", [])), tuple(u.get("defines_native", [])))
    wd = tempfile.mkdtemp(prefix="vn_", dir=WORKROOT)
    try:
        if key in NATIVE_CACHE:
            return _native_run(u, ob, inputs, replay_dir, NATIVE_CACHE[key], info)
        gen_native.generate_for_unit(u, VERIF, wd)
        exe = os.path.join(wd, "native")
        defs = ["-DV_NATIVE", "-DNDEBUG", "-D_GNU_SOURCE", "-DLIBMODULE_LOG_CTX=" + u.get("logctx", "CORE"), "-std=gnu11"]
        defs += ["-D" + d for d in u.get("defines", [])] + ["-D" + d for d in u.get("defines_native", [])]
        cmd = ["gcc", "-g", "-O0", "-fsanitize=address,undefined", "-fno-omit-frame-pointer", "-w"] + defs + \
              ["-I" + wd] + inc_flags() + [os.path.join(VERIF, u["src"]), "-o", exe, "-lpthread", "-ldl", "-ffunction-sections", "-Wl,--gc-sections"]
        rc, out, err, _ = run(cmd, 180, 32)
        info["build_cmd"] = " ".join(cmd)
        if rc != 0:
            info["result"] = "native build failed"
            info["output"] = (out + err)[-2000:]
            return info
        NATIVE_CACHE[key] = (exe, info["build_cmd"])
        return _native_run(u, ob, inputs, replay_dir, NATIVE_CACHE[key], info)
    finally:
        pass


def _native_run(u, ob, inputs, replay_dir, cached, info):
    exe, info["build_cmd"] = cached
    if True:
        rf = os.path.join(replay_dir, re.sub(r"[^A-Za-z0-9_.-]", "_", ob_id(ob)) + ".inputs")
        with open(rf, "w") as f:
            for k, v in sorted(inputs.items()):
                f.write("%s %d\n" % (k, v))
        env = dict(os.environ, V_REPLAY=rf, ASAN_OPTIONS="detect_leaks=0:abort_on_error=0:allocator_may_return_null=1", UBSAN_OPTIONS="print_stacktrace=1")
        t0 = time.time()
        try:
            p = subprocess.run([exe, u["harness"]], stdout=subprocess.PIPE, stderr=subprocess.PIPE, timeout=60, env=env,
                               text=True, errors="replace")
            rc, out, err = p.returncode, p.stdout, p.stderr
        except subprocess.TimeoutExpired:
            rc, out, err = -9, "", "timeout"
        info["run_cmd"] = "V_REPLAY=%s <native build of %s> %s" % (rf, u["src"], u["harness"])
        info["inputs_file"] = rf
        info["exit"] = rc
        info["output"] = (out[-1500:] + "\n" + err[-2500:]).strip()
        failed_tags = re.findall(r"V_CHECK FAILED (\S+)", out)
        san = bool(re.search(r"AddressSanitizer|runtime error:|Segmentation|SEGV", err)) or rc < 0 or rc >= 128
        info["failed_checks"] = failed_tags
        info["sanitizer_or_crash"] = san
        # confirmed = the same tagged clause fails natively, or (for untagged safety obligations) a sanitizer fires / it crashes
        if ob["tags"]:
            info["confirmed"] = any(t in failed_tags for t in ob["tags"]) or (san and not failed_tags)
        else:
            info["confirmed"] = san or bool(failed_tags)
        if rc == 3:
            info["confirmed"] = False
            info["result"] = "native pre-state does not satisfy the harness assumptions (counterexample relies on abstract state)"
        return info


def ob_id(ob):
    base = ob["tags"][0] if ob["tags"] else ob["name"]
    fn = ob.get("function") or ""
    return "%s@%s" % (base, ob["unit"]) if not fn or fn in base else "%s@%s" % (base, ob["unit"])


def belongs(ob, prop, unit):
    """does this obligation count for property `prop`?  tagged -> only the tagged properties;
    untagged (generic safety, frame, loop obligations) -> every property the unit serves."""
    tagged = sorted(set(t.split(".")[0] for t in ob["tags"]))
    if os.environ.get("VERIF_ALLTAGS"):      # unit development: judge every obligation of the unit whatever property it is tagged with
        return True
    if tagged:
        return prop in tagged
    return prop in unit["props"]


def kf_matches(k, ob, uname):
    """does known-finding entry k name this failing obligation?"""
    if k.get("unit") not in (None, uname, uname.split("#")[0]):
        return False
    if k["obligation"] in ob["tags"] or k["obligation"] == ob["name"]:
        return True
    # consequences of the same defect that surface as generic safety checks (listed by description; only with an explicit unit)
    return bool(k.get("unit")) and any(d in ob["description"] for d in k.get("also_descriptions", []))


def load_known():
    p = os.path.join(VERIF, "known_findings.json")
    if not os.path.exists(p):
        return []
    return json.load(open(p)).get("findings", [])


def main():
    ap = argparse.ArgumentParser()
    ap.add_argument("prop")
    ap.add_argument("--tier", default=os.environ.get("VERIF_TIER", "quick"))
    ap.add_argument("--unit", action="append")
    ap.add_argument("--keep", action="store_true")
    ap.add_argument("-j", type=int, default=int(os.environ.get("VERIF_JOBS", "14")))
    ap.add_argument("-v", action="store_true")
    ap.add_argument("--no-evidence", action="store_true")
    ap.add_argument("--define", action="append", default=[], help="extra -D for every unit (debugging)")
    args = ap.parse_args()
    tier = "thorough" if args.tier == "thorough" else "quick"
    seed = int(os.environ.get("VERIF_SEED", "0") or 0)
    prop = args.prop
    t_start = time.time()

    global WORKROOT
    WORKROOT = tempfile.mkdtemp(prefix="verif_work_")
    try:
        return _main(args, tier, seed, prop, t_start)
    finally:
        if os.environ.get('VERIF_KEEP_WORK'):
            print('work kept in', WORKROOT)
        else:
            shutil.rmtree(WORKROOT, ignore_errors=True)


def _main(args, tier, seed, prop, t_start):
    units = [u for u in UNITS.all_units() if prop in u["props"] and (tier == "thorough" or not u.get("thorough_only"))]
    if prop == "C04" and tier == "quick" and not args.unit:
        # C04 rides on every unit; the quick tier keeps one member of each compile-time variant family (the families run in full under their own
        # property in the same session and under C04 in the thorough tier)
        seen_fam, keep = set(), []
        for u in units:
            fam = u["name"].split("#")[0]
            if "#" in u["name"]:
                if fam in seen_fam:
                    continue
                seen_fam.add(fam)
            keep.append(u)
        units = keep
    if args.unit:
        units = [u for u in units if u["name"] in args.unit]
    if not units:
        print("UNDECIDED property=%s reason=no-units-registered" % prop)
        return 2
    with ThreadPoolExecutor(max_workers=args.j) as ex:
        results = list(ex.map(lambda u: run_unit(u, tier, args.keep, extra_defs=args.define), units))

    known = [k for k in load_known() if k.get("property") == prop and not k.get("fixed")]
    undecided, violations, known_hits = [], [], []
    ob_all, ob_mine = [], []
    for r in results:
        if args.v or r.status != "ok":
            print("[unit %-28s] %s %s  (%d obligations, %.1fs)" % (r.unit["name"], r.status, r.reason, len(r.obligations), r.total_s))
        if r.status != "ok":
            undecided.append(r)
        for ob in r.obligations:
            ob_all.append(ob)
            if belongs(ob, prop, r.unit):
                ob_mine.append(ob)

    failing = [ob for ob in ob_mine if ob["status"] == "FAILURE"]
    replay_dir = os.path.join(VERIF, "replay", prop)
    byunit = {}
    for ob in failing:
        byunit.setdefault(ob["unit"], []).append(ob)
    umap = {u["name"]: u for u in units}
    # known findings: re-run each affected unit under assume(!class) (all such re-runs in parallel); an obligation that then
    # passes is the listed finding, one that still fails is a different violation
    kf_jobs = []
    for uname, obs in byunit.items():
        for k in known:
            if any(kf_matches(k, ob, uname) for ob in obs):
                if not any(j[0] == uname and j[1] == k["exclude_define"] for j in kf_jobs):
                    kf_jobs.append((uname, k["exclude_define"]))
    with ThreadPoolExecutor(max_workers=args.j) as ex:
        kf_res = list(ex.map(lambda j: run_unit(umap[j[0]], tier, extra_defs=list(args.define) + [j[1]], relax_cover=True), kf_jobs))
    kf_map = {j: r for j, r in zip(kf_jobs, kf_res)}
    remaining_by_unit = {}
    for uname, obs in byunit.items():
        remaining = list(obs)
        for k in known:
            hit = [ob for ob in remaining if kf_matches(k, ob, uname)]
            if not hit:
                continue
            r2 = kf_map[(uname, k["exclude_define"])]
            if r2.status != "ok":
                undecided.append(r2)
                continue
            still = set(ob_id(o) for o in r2.obligations if o["status"] == "FAILURE")
            for ob in hit:
                if ob_id(ob) not in still:
                    known_hits.append((k, ob))
                    remaining.remove(ob)
        remaining_by_unit[uname] = remaining
    for uname, obs in byunit.items():
        u = umap[uname]
        remaining = remaining_by_unit[uname]
        if not remaining:
            continue
        # fetch traces for the genuinely failing obligations
        remaining.sort(key=lambda o: (0 if o["tags"] else 1, o["name"]))
        also = [ob_id(o) + " : " + o["description"][:120] for o in remaining[MAX_REPLAYS:]]
        remaining = remaining[:MAX_REPLAYS]
        names = [ob["name"] for ob in remaining]
        r3 = None
        if u.get("trace_defines"):
            # look for the counterexample in a smaller input domain first (readable, natively replayable values)
            r3 = run_unit(u, tier, extra_defs=u["trace_defines"], want_trace_for=names)
            got = {o["name"] for o in r3.obligations if o["status"] == "FAILURE" and o.get("trace")}
            if r3.status == "undecided" and not got:
                r3 = None
            elif not set(names) <= got:
                r3 = None
        if r3 is None:
            r3 = run_unit(u, tier, want_trace_for=names)
        traces = {o["name"]: o.get("trace") for o in r3.obligations}
        os.makedirs(replay_dir, exist_ok=True)
        for ob in remaining:
            tr = traces.get(ob["name"])
            inputs = trace_inputs(tr)
            nat = native_replay(u, ob, inputs, replay_dir)
            rp = os.path.join(replay_dir, re.sub(r"[^A-Za-z0-9_.@-]", "_", ob_id(ob)) + ".json")
            doc = {"property": prop, "obligation": ob_id(ob), "tags": ob["tags"], "unit": uname, "function_under_contract": u.get("enforce"),
                   "cbmc_property": ob["name"], "description": ob["description"], "clause": ob["clause"] or src_line(ob["file"], ob["line"]).strip(),
                   "location": "%s:%s" % (ob["file"], ob["line"]), "verdict": "REFUTED by cbmc (counterexample found)",
                   "counterexample_inputs": inputs, "counterexample_trace_tail": trace_summary(tr),
                   "native_replay": nat, "how_to_rerun": "cd /verif && ./vcheck %s --unit %s -v" % (prop, uname),
                   "other_obligations_refuted_in_this_unit": also,
                   "verifier_cmds": r3.cmds}
            with open(rp, "w") as f:
                json.dump(doc, f, indent=1)
            violations.append((ob, rp, bool(nat.get("confirmed"))))

    # ------------------------------------------------------------------ evidence
    wall = time.time() - t_start
    kf_names = set((ob["unit"], ob["name"]) for _, ob in known_hits)
    note_n = sum(1 for o in ob_mine if o["status"] == "NOTE")
    counted = [o for o in ob_mine if (o["unit"], o["name"]) not in kf_names and o["status"] != "NOTE"]
    unb = [o for o in counted if not o["bounded"]]
    bnd = [o for o in counted if o["bounded"]]
    spec = UNITS.PROPS.get(prop, {})
    samples = []
    seen = set()
    for o in ob_mine:
        if o["tags"] and o["tags"][0] not in seen and len(samples) < 12:
            seen.add(o["tags"][0])
            samples.append({"obligation": ob_id(o), "status": o["status"], "clause": (o["clause"] or o["description"])[:400],
                            "function": o["function"], "bounded": o["bounded"]})
    for o in ob_mine:
        if not o["tags"] and len(samples) < 16 and o["description"] not in seen:
            seen.add(o["description"])
            samples.append({"obligation": ob_id(o), "status": o["status"], "clause": o["description"][:300], "function": o["function"],
                            "bounded": o["bounded"]})
    level = spec.get("level", "proof")
    cov = {
        "obligations": len(unb), "discharged": sum(1 for o in unb if o["status"] == "SUCCESS"),
        "bounded_obligations": len(bnd), "bounded_discharged": sum(1 for o in bnd if o["status"] == "SUCCESS"),
        "bounds": {u["name"]: u.get("bound_note", "") for u in units if u.get("bounded")},
        "tagged_obligations": sum(1 for o in ob_mine if o["tags"]),
        "known_finding_obligations_not_counted": len(kf_names), "ub_notes_not_counted": note_n,
        "checker_cmd": "goto-cc ... && goto-instrument --dfcc <harness> --enforce-contract <f> [--replace-call-with-contract g]* [--apply-loop-contracts] && cbmc "
                       + " ".join(CBMC_CHECKS) + " --sat-solver cadical --object-bits 12   (exact per-unit commands under 'units')",
        "trusted_base": UNITS.TRUSTED_BASE + spec.get("trusted", []),
        "functions_under_contract": sorted(set(u["enforce"] for u in units if u.get("enforce"))),
        "replaced_by_contract": sorted(set(sum((u.get("replace", []) for u in units), []))),
        "back_end": "CBMC 6.11.0 SAT (%s)" % os.environ.get("VERIF_SOLVER", "cadical"),
        "solver_s": round(sum(r.solver_s for r in results), 2),
        "units": [{"unit": r.unit["name"], "harness": r.unit["harness"], "enforce": r.unit.get("enforce"), "replace": r.unit.get("replace", []),
                   "status": r.status, "reason": r.reason, "obligations": len(r.obligations),
                   "failed": sum(1 for o in r.obligations if o["status"] == "FAILURE"),
                   "cover_points": len(r.cover), "cover_reached": sum(1 for _, ok in r.cover if ok), "canary_fails_as_required": r.canary,
                   "bounded": bool(r.unit.get("bounded")), "bound": r.unit.get("bound_note", ""),
                   "solver_s": round(r.solver_s, 2),
                   # exact commands: for '#' variant families only the first member carries them (they differ only in -D defines)
                   "cmds": (r.cmds if ("#" not in r.unit["name"] or _first_variant(r.unit["name"], results)) else ["same as first variant; defines=" + " ".join(r.unit.get("defines", []))])}
                  for r in results],
        "samples": samples,
        "not_decided": spec.get("not_decided", []),
        "explanation": spec.get("explanation", ""),
        "known_findings_reported": [k["what"] for k, _ in known_hits],
        "ub_notes_not_judged": sorted(set(n for r in results for n in r.notes))[:40],
        "violations": [{"obligation": ob_id(o), "replay": rp, "native_confirmed": c} for o, rp, c in violations],
        "undecided_units": [{"unit": r.unit["name"], "reason": r.reason} for r in undecided],
        "exhaustive": False,
    }
    ev = {"property_id": prop, "tier": tier, "seed": seed, "level": level, "coverage": cov,
          "assumptions": UNITS.ASSUMPTIONS + spec.get("assumptions", []) + scan_assumptions(units),
          "wall_s": round(wall, 2), "violations": len(violations)}
    if not args.no_evidence and not args.unit and not args.define:
        os.makedirs(os.path.join(VERIF, "evidence"), exist_ok=True)
        with open(os.path.join(VERIF, "evidence", prop + ".json"), "w") as f:
            json.dump(ev, f, indent=1)

    printed = set()
    for k, ob in known_hits:
        if k["what"] not in printed:
            printed.add(k["what"])
            obs = sorted(set(ob_id(o) for kk, o in known_hits if kk["what"] == k["what"]))
            print("KNOWN-FINDING: property=%s %s [%d obligations: %s%s]" % (prop, k["what"], len(obs), ", ".join(obs[:4]), ", ..." if len(obs) > 4 else ""))
    for ob, rp, confirmed in violations:
        print("  refuted obligation %s : %s" % (ob_id(ob), (ob["clause"] or ob["description"])[:200]))
        print("VIOLATION property=%s replay=%s%s" % (prop, rp, "" if confirmed else " no-failing-input-found"))
    print("%s: %d/%d unbounded obligations discharged, %d/%d bounded, %d units, %.1fs" % (
        prop, cov["discharged"], cov["obligations"], cov["bounded_discharged"], cov["bounded_obligations"], len(units), wall))
    if violations:
        return 1
    if undecided:
        for r in undecided:
            print("UNDECIDED property=%s unit=%s reason=%s" % (prop, r.unit["name"], r.reason[:400]))
        return 2
    return 0


def _first_variant(name, results):
    fam = name.split("#")[0]
    for r in results:
        if r.unit["name"].split("#")[0] == fam:
            return r.unit["name"] == name
    return True


def scan_assumptions(units):
    """mechanical scan: every __CPROVER_assume / V_ASSUME in the files of the units that ran."""
    out = []
    files = set()
    for u in units:
        files.add(os.path.join(VERIF, u["src"]))
        for c in u.get("contract_files", []):
            files.add(os.path.join(VERIF, c))
    n = 0
    for f in sorted(files):
        try:
            txt = open(f).read()
        except OSError:
            continue
        c = len(re.findall(r"V_ASSUME\(|__CPROVER_assume\(", txt))
        n += c
        if c:
            out.append("scan: %s contains %d V_ASSUME/__CPROVER_assume sites (harness input constraints / builder validity)" % (os.path.relpath(f, VERIF), c))
    return out


if __name__ == "__main__":
    sys.exit(main())
