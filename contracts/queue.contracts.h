/* Contracts for Lib/structs/queue.c (property C12; safety obligations also count for C04).
 * Idiom B (DESIGN.md 2.5): window + proved frame.  The pre-state is ANY queue whose nodes inside the window
 * are materialised; links leaving the window are invalid non-NULL sentinels (a dereference fails pointer-check),
 * `len` is fully symbolic.  Ghost pointers name the window objects:
 *   g_q     the queue                      g_head / g_tail   its first / last node (NULL iff empty)
 *   g_slot  the link the iterator sits on  g_P               node that contains g_slot (NULL: slot is &q->head)
 *   g_C     node the iterator currently designates (== *g_slot), NULL at end
 *   g_hd / g_Cd   = g_head / g_C, or a dummy node when those are NULL, so that V_OLD(g_hd->...) is always evaluable
 *   g_itr_in  value of *itr at entry of m_queue_itr_next (NULL or g_itr)
 * Abstract view: seq(q) = head, head->prev, ... , tail.  Each postcondition gives the exact new value of every
 * field in the window; assigns proves every node outside the window (unbounded many) untouched. */

#define V_QLEN_MAX ((size_t)1 << 62)   /* type invariant: a queue cannot hold more nodes than addressable memory */

static inline bool v_q_ok(void) {
    if (g_q == NULL || !V_RW_OK(g_q, sizeof(m_queue_t))) return false;
    if (g_q->dtor != NULL && g_q->dtor != v_elem_dtor) return false;
    if (g_q->len >= V_QLEN_MAX) return false;
    if (g_q->head != g_head || g_q->tail != g_tail) return false;
    if (g_hd != (g_head ? g_head : &g_dummy_node)) return false;
    if (g_q->len == 0) return g_head == NULL && g_tail == NULL;
    if (g_head == NULL || g_tail == NULL) return false;
    if (!V_RW_OK(g_head, sizeof(queue_elem)) || !V_RW_OK(g_tail, sizeof(queue_elem))) return false;
    if (g_tail->prev != NULL) return false;                      /* last node ends the chain          */
    if ((g_q->len == 1) != (g_head == g_tail)) return false;     /* one node iff head is tail         */
    if (g_head->userptr == NULL || g_tail->userptr == NULL) return false;   /* enqueue refuses NULL   */
    if (g_q->len >= 2 && g_head->prev == NULL) return false;
    if (g_q->len == 2 && g_head->prev != g_tail) return false;
    return true;
}

/* iterator window: itr sits on g_slot which is &q->head or &g_P->prev; g_C == *g_slot */
static inline bool v_qitr_ok(m_queue_itr_t *itr) {
    if (itr == NULL || !V_RW_OK(itr, sizeof(m_queue_itr_t))) return false;
    if (!v_q_ok() || itr->q != g_q || itr->elem != g_slot) return false;
    if (g_P == NULL) { if (g_slot != &g_q->head) return false; }
    else {
        if (!V_RW_OK(g_P, sizeof(queue_elem)) || g_slot != &g_P->prev) return false;
        if (g_q->len < 1) return false;
        if (g_P == g_tail && g_P->prev != NULL) return false;
    }
    if (*g_slot != g_C || g_Cd != (g_C ? g_C : &g_dummy_node)) return false;
    if (g_C != NULL) {
        if (!V_RW_OK(g_C, sizeof(queue_elem)) || g_C->userptr == NULL) return false;
        if (g_q->len < (g_P ? 2 : 1)) return false;
        if ((g_C->prev == NULL) != (g_C == g_tail)) return false;   /* only the tail ends the chain */
        if (g_P == NULL && g_C != g_head) return false;
        if (g_C == g_P) return false;
    } else {
        if (g_P != NULL && g_P != g_tail) return false;             /* NULL link only after the tail */
        if (g_P == NULL && g_q->len != 0) return false;
    }
    return true;
}

V_CONTRACT
m_queue_t *m_queue_new(m_queue_dtor fn)
V_REQUIRES(v_base_ok())
V_ASSIGNS(g_alloc_calls, g_last_alloc)
V_ENSURES(V_IMP(V_OLD(g_oom_mask) == 0, V_RET != NULL))                                                             /*@C12.new-succeeds*/
V_ENSURES(V_IMP(V_RET != NULL, V_RW_OK(V_RET, sizeof(m_queue_t)) && V_RET->len == 0 && V_RET->head == NULL
                && V_RET->tail == NULL && V_RET->dtor == fn))                                                        /*@C12.new-is-empty*/
;

V_CONTRACT
ssize_t m_queue_len(const m_queue_t *q)
V_REQUIRES(v_base_ok())
V_REQUIRES(q == NULL || (q == g_q && v_q_ok()))
V_ASSIGNS()
V_ENSURES(V_RET == (q == NULL ? -EINVAL : (ssize_t)g_q->len))                                                       /*@C12.len-exact*/
;

V_CONTRACT
int m_queue_enqueue(m_queue_t *q, void *data)
V_REQUIRES(v_base_ok())
V_REQUIRES(q == NULL || (q == g_q && v_q_ok()))
V_ASSIGNS(g_alloc_calls, g_last_alloc; q != NULL && data != NULL: g_q->len, g_q->head, g_q->tail; q != NULL && data != NULL && g_tail != NULL: g_tail->prev)
V_ENSURES(V_IMP(q == NULL || data == NULL, V_RET == -EINVAL))                                                       /*@C12.enqueue-rejects-null*/
V_ENSURES(V_IMP(q != NULL && data != NULL && V_RET != 0,
                V_RET == -ENOMEM && g_q->len == V_OLD(g_q->len) && g_q->head == g_head && g_q->tail == g_tail
                && V_IMP(g_tail != NULL, g_tail->prev == NULL)))                                                     /*@C12.enqueue-failure-no-effect*/
V_ENSURES(V_IMP(q != NULL && data != NULL && V_OLD(g_oom_mask) == 0, V_RET == 0))                                   /*@C12.enqueue-succeeds*/
V_ENSURES(V_IMP(q != NULL && data != NULL && V_RET == 0,
                g_q->len == V_OLD(g_q->len) + 1
                && g_q->tail != NULL && g_q->tail == (queue_elem *)g_last_alloc && g_q->tail != g_tail && g_q->tail != g_head
                && g_q->tail->userptr == data && g_q->tail->prev == NULL                                            /* new last node        */
                && (g_tail != NULL ? (g_tail->prev == g_q->tail && g_q->head == g_head)                             /* linked after old tail */
                                   : g_q->head == g_q->tail)))                                                       /*@C12.fifo-append-at-tail*/
;

V_CONTRACT
void *m_queue_dequeue(m_queue_t *q)
V_REQUIRES(v_base_ok())
V_REQUIRES(q == NULL || (q == g_q && v_q_ok()))
V_ASSIGNS(g_free_calls, g_free_arg, g_free_arg0; q != NULL: g_q->len, g_q->head, g_q->tail)
V_FREES(g_head)
V_ENSURES(V_IMP(q == NULL || V_OLD(g_q->len) == 0, V_RET == NULL && g_free_calls == V_OLD(g_free_calls)))           /*@C12.dequeue-empty*/
V_ENSURES(V_IMP(q != NULL && V_OLD(g_q->len) > 0,
                V_RET == V_OLD(g_hd->userptr)                                                                      /* oldest element        */
                && g_q->head == V_OLD(g_hd->prev) && g_q->len == V_OLD(g_q->len) - 1
                && g_q->tail == (V_OLD(g_q->len) == 1 ? NULL : g_tail)
                && g_free_calls == V_OLD(g_free_calls) + 1 && g_free_arg == (void *)g_head                           /* node released once    */
                && g_dtor_calls == V_OLD(g_dtor_calls)))                                                             /*@C12.fifo-remove-at-head*/
;

V_CONTRACT
void *m_queue_peek(const m_queue_t *q)
V_REQUIRES(v_base_ok())
V_REQUIRES(q == NULL || (q == g_q && v_q_ok()))
V_ASSIGNS()
V_ENSURES(V_RET == ((q == NULL || g_q->len == 0) ? NULL : g_head->userptr))                                         /*@C12.peek-is-oldest*/
;

V_CONTRACT
int m_queue_remove(m_queue_t *q)
V_REQUIRES(v_base_ok())
V_REQUIRES(q == NULL || (q == g_q && v_q_ok()))
V_ASSIGNS(g_free_calls, g_free_arg, g_free_arg0, g_dtor_calls, g_dtor_arg; q != NULL: g_q->len, g_q->head, g_q->tail)
V_FREES(g_head)
V_ENSURES(V_IMP(q == NULL || V_OLD(g_q->len) == 0, V_RET == -EINVAL && g_free_calls == V_OLD(g_free_calls) && g_dtor_calls == V_OLD(g_dtor_calls)))  /*@C12.remove-empty*/
V_ENSURES(V_IMP(q != NULL && V_OLD(g_q->len) > 0,
                V_RET == 0 && g_q->head == V_OLD(g_hd->prev) && g_q->len == V_OLD(g_q->len) - 1
                && g_q->tail == (V_OLD(g_q->len) == 1 ? NULL : g_tail)
                && g_free_calls == V_OLD(g_free_calls) + 1 && g_free_arg == (void *)g_head))                         /*@C12.remove-drops-head*/
V_ENSURES(V_IMP(q != NULL && V_OLD(g_q->len) > 0 && g_q->dtor != NULL,
                g_dtor_calls == V_OLD(g_dtor_calls) + 1 && g_dtor_arg == V_OLD(g_hd->userptr)))                    /*@C12.dtor-once-on-dropped-element*/
V_ENSURES(V_IMP(q != NULL && g_q->dtor == NULL, g_dtor_calls == V_OLD(g_dtor_calls)))                               /*@C12.no-dtor-no-call*/
;

V_CONTRACT
m_queue_itr_t *m_queue_itr_new(const m_queue_t *q)
V_REQUIRES(v_base_ok())
V_REQUIRES(q == NULL || (q == g_q && v_q_ok()))
V_ASSIGNS(g_alloc_calls, g_last_alloc)
V_ENSURES(V_IMP(q == NULL || g_q->len == 0, V_RET == NULL))                                                         /*@C12.itr-new-empty*/
V_ENSURES(V_IMP(q != NULL && g_q->len > 0 && V_OLD(g_oom_mask) == 0, V_RET != NULL))                                /*@C12.itr-new-succeeds*/
V_ENSURES(V_IMP(V_RET != NULL, V_RW_OK(V_RET, sizeof(m_queue_itr_t)) && V_RET->q == g_q && V_RET->elem == &g_q->head && !V_RET->removed))  /*@C12.itr-starts-at-first*/
;

V_CONTRACT
int m_queue_itr_next(m_queue_itr_t **itr)
V_REQUIRES(v_base_ok())
V_REQUIRES(itr == NULL || (V_RW_OK(itr, sizeof(*itr)) && *itr == g_itr_in && (*itr == NULL || (*itr == g_itr && v_qitr_ok(g_itr) && (g_itr->removed || g_C != NULL)))))
V_ASSIGNS(g_free_calls, g_free_arg, g_free_arg0; itr != NULL && *itr != NULL: *itr, g_itr->elem, g_itr->removed)
V_FREES(g_itr)
V_ENSURES(V_IMP(itr == NULL || g_itr_in == NULL, V_RET == -EINVAL))                                              /*@C12.itr-next-rejects-null*/
V_ENSURES(V_IMP(itr != NULL && g_itr_in != NULL, V_RET == 0))
/* position after the step: unchanged slot if the current element was just removed (the slot already shows its
 * successor), else the link inside the current node -- i.e. exactly one unvisited element further */
V_ENSURES(V_IMP(itr != NULL && g_itr_in != NULL && *itr != NULL,
                *itr == g_itr && !g_itr->removed
                && g_itr->elem == (V_OLD(g_itr->removed) ? g_slot : &g_C->prev) && *g_itr->elem != NULL))            /*@C12.itr-advances-exactly-one*/
/* the iterator ends (and is released, exactly once) iff there is no further element */
V_ENSURES(V_IMP(itr != NULL && g_itr_in != NULL,
                (*itr == NULL) == ((V_OLD(g_itr->removed) ? g_C : V_OLD(g_Cd->prev)) == NULL)))                       /*@C12.itr-ends-iff-no-successor*/
V_ENSURES(V_IMP(itr != NULL && g_itr_in != NULL && *itr == NULL, g_free_calls == V_OLD(g_free_calls) + 1 && g_free_arg == (void *)g_itr))  /*@C12.itr-released-once*/
V_ENSURES(V_IMP(itr != NULL && g_itr_in != NULL && *itr != NULL, g_free_calls == V_OLD(g_free_calls)))
;

V_CONTRACT
int m_queue_itr_remove(m_queue_itr_t *itr)
V_REQUIRES(v_base_ok())
V_REQUIRES(itr == NULL || (itr == g_itr && v_qitr_ok(g_itr)))
V_ASSIGNS(g_free_calls, g_free_arg, g_free_arg0, g_dtor_calls, g_dtor_arg; itr != NULL: *g_slot, g_q->tail, g_q->len, g_itr->removed)
V_FREES(g_C)
V_ENSURES(V_IMP(itr == NULL || V_OLD(g_itr->removed), V_RET == -EINVAL && g_free_calls == V_OLD(g_free_calls) && g_dtor_calls == V_OLD(g_dtor_calls)))  /*@C12.itr-remove-guard*/
V_ENSURES(V_IMP(itr != NULL && V_OLD(g_itr->removed), *g_slot == g_C && g_q->tail == g_tail && g_q->len == V_OLD(g_q->len) && g_itr->removed))
V_ENSURES(V_IMP(itr != NULL && !V_OLD(g_itr->removed) && g_C == NULL,
                V_RET == -ENOENT && *g_slot == NULL && g_q->tail == g_tail && g_q->len == V_OLD(g_q->len) && !g_itr->removed
                && g_free_calls == V_OLD(g_free_calls)))                                                             /*@C12.itr-remove-at-end*/
V_ENSURES(V_IMP(itr != NULL && !V_OLD(g_itr->removed) && g_C != NULL,
                V_RET == 0 && *g_slot == V_OLD(g_Cd->prev)                                                            /* exactly the current node unlinked */
                && g_q->len == V_OLD(g_q->len) - 1 && g_itr->removed
                && g_free_calls == V_OLD(g_free_calls) + 1 && g_free_arg == (void *)g_C))                            /*@C12.itr-remove-unlinks-current*/
V_ENSURES(V_IMP(itr != NULL && !V_OLD(g_itr->removed) && g_C != NULL && g_q->dtor != NULL,
                g_dtor_calls == V_OLD(g_dtor_calls) + 1 && g_dtor_arg == V_OLD(g_Cd->userptr)))                       /*@C12.itr-remove-dtor-once-on-removed*/
V_ENSURES(V_IMP(itr != NULL && g_q->dtor == NULL, g_dtor_calls == V_OLD(g_dtor_calls)))
/* the queue stays a queue: if the removed node was the last one, the new last node is its predecessor
 * (the node holding the slot), or nothing if it was also the first */
V_ENSURES(V_IMP(itr != NULL && !V_OLD(g_itr->removed) && g_C != NULL,
                g_q->tail == (g_C == g_tail ? g_P : g_tail)))                                                        /*@C12.tail-after-itr-remove*/
V_ENSURES(V_IMP(itr != NULL && !V_OLD(g_itr->removed) && g_C != NULL, g_q->head == (g_P == NULL ? V_OLD(g_Cd->prev) : g_head)))  /*@C12.head-after-itr-remove*/
;

V_CONTRACT
void *m_queue_itr_get_data(const m_queue_itr_t *itr)
V_REQUIRES(v_base_ok())
V_REQUIRES(itr == NULL || (itr == g_itr && v_qitr_ok(g_itr) && (g_itr->removed || g_C != NULL)))
V_ASSIGNS()
V_ENSURES(V_RET == ((itr == NULL || g_itr->removed) ? NULL : g_C->userptr))                                         /*@C12.itr-get-current*/
;

V_CONTRACT
int m_queue_itr_set_data(const m_queue_itr_t *itr, void *value)
V_REQUIRES(v_base_ok())
V_REQUIRES(itr == NULL || (itr == g_itr && v_qitr_ok(g_itr) && (g_itr->removed || g_C != NULL)))
V_ASSIGNS(itr != NULL && !g_itr->removed && value != NULL: g_C->userptr)
V_ENSURES(V_IMP(itr == NULL || g_itr->removed || value == NULL, V_RET == -EINVAL))                                  /*@C12.itr-set-guard*/
V_ENSURES(V_IMP(itr != NULL && !g_itr->removed && value != NULL, V_RET == 0 && g_C->userptr == value && g_dtor_calls == V_OLD(g_dtor_calls)))  /*@C12.itr-set-replaces-current-only*/
;
