/* Contracts for Lib/structs/list.c (property C12; safety obligations also count for C04).  Idiom B.
 * Ghost window:  g_l the list, g_first its first node, g_slot the link the iterator sits on (&l->data or &g_P->next),
 * g_C == *g_slot (NULL only transiently after the last element was removed), g_Cd never-NULL alias.
 * The static helpers insert_node()/remove_node() are inlined into m_list_itr_insert()/m_list_itr_remove() and are
 * verified through them (every path of both helpers is reachable from these two entry points). */
#define V_LLEN_MAX ((size_t)1 << 62)
#define V_DIFF_MAX ((ssize_t)1 << 40)

static inline bool v_l_ok(void) {
    if (g_l == NULL || !V_RW_OK(g_l, sizeof(m_list_t))) return false;
    if (g_l->dtor != NULL && g_l->dtor != v_elem_dtor) return false;
    if (g_l->len >= V_LLEN_MAX) return false;
    if (g_l->data != g_first) return false;
    if (g_l->len == 0) return g_first == NULL;
    if (g_first == NULL || !V_RW_OK(g_first, sizeof(list_node)) || g_first->userptr == NULL) return false;
    if ((g_l->len == 1) != (g_first->next == NULL)) return false;
    return true;
}
static inline bool v_litr_ok(m_list_itr_t *itr) {
    if (itr == NULL || !V_RW_OK(itr, sizeof(m_list_itr_t))) return false;
    if (!v_l_ok() || itr->l != g_l || itr->elem != g_slot) return false;
    if (itr->diff <= -V_DIFF_MAX || itr->diff >= V_DIFF_MAX) return false;
    if (g_P == NULL) { if (g_slot != &g_l->data) return false; }
    else { if (!V_RW_OK(g_P, sizeof(list_node)) || g_slot != &g_P->next || g_l->len < 1) return false; }
    if (*g_slot != g_C || g_Cd != (g_C ? g_C : &g_dummy_node)) return false;
    if (g_C != NULL) {
        if (!V_RW_OK(g_C, sizeof(list_node)) || g_C->userptr == NULL || g_C == g_P) return false;
        if (g_l->len < (g_P ? 2 : 1)) return false;
        if (g_P == NULL && g_C != g_first) return false;
    } else if (g_P == NULL && g_l->len != 0) return false;
    return true;
}

V_CONTRACT
m_list_t *m_list_new(m_list_cmp comp, m_list_dtor fn)
V_REQUIRES(v_base_ok())
V_ASSIGNS(g_alloc_calls, g_last_alloc)
V_ENSURES(V_IMP(V_OLD(g_oom_mask) == 0, V_RET != NULL))                                                             /*@C12.new-succeeds*/
V_ENSURES(V_IMP(V_RET != NULL, V_RW_OK(V_RET, sizeof(m_list_t)) && V_RET->len == 0 && V_RET->data == NULL && V_RET->dtor == fn && V_RET->comp == comp))  /*@C12.new-is-empty*/
;

V_CONTRACT
ssize_t m_list_len(const m_list_t *l)
V_REQUIRES(v_base_ok())
V_REQUIRES(l == NULL || (l == g_l && v_l_ok()))
V_ASSIGNS()
V_ENSURES(V_RET == (l == NULL ? -EINVAL : (ssize_t)g_l->len))                                                       /*@C12.len-exact*/
;

V_CONTRACT
m_list_itr_t *m_list_itr_new(const m_list_t *l)
V_REQUIRES(v_base_ok())
V_REQUIRES(l == NULL || (l == g_l && v_l_ok()))
V_ASSIGNS(g_alloc_calls, g_last_alloc)
V_ENSURES(V_IMP(l == NULL || g_l->len == 0, V_RET == NULL))                                                         /*@C12.itr-new-empty*/
V_ENSURES(V_IMP(l != NULL && g_l->len > 0 && V_OLD(g_oom_mask) == 0, V_RET != NULL))                                /*@C12.itr-new-succeeds*/
V_ENSURES(V_IMP(V_RET != NULL, V_RW_OK(V_RET, sizeof(m_list_itr_t)) && V_RET->l == g_l && V_RET->elem == &g_l->data && V_RET->diff == 0))  /*@C12.itr-starts-at-first*/
;

V_CONTRACT
int m_list_itr_next(m_list_itr_t **itr)
V_REQUIRES(v_base_ok())
V_REQUIRES(itr == NULL || (V_RW_OK(itr, sizeof(*itr)) && *itr == g_itr_in && (*itr == NULL || (*itr == g_itr && v_litr_ok(g_itr)))))
V_ASSIGNS(g_free_calls, g_free_arg, g_free_arg0; itr != NULL && *itr != NULL: *itr, g_itr->elem, g_itr->diff)
V_FREES(g_itr)
V_ENSURES(V_IMP(itr == NULL || g_itr_in == NULL, V_RET == -EINVAL))                                                 /*@C12.itr-next-rejects-null*/
V_ENSURES(V_IMP(itr != NULL && g_itr_in != NULL, V_RET == 0))
/* a step moves to the link inside the current node unless elements were removed since the last step (then the slot
 * already shows the successor) */
V_ENSURES(V_IMP(itr != NULL && g_itr_in != NULL && *itr != NULL,
                *itr == g_itr && g_itr->diff == 0 && g_C != NULL
                && g_itr->elem == (V_OLD(g_itr->diff) >= 0 ? &g_C->next : g_slot) && *g_itr->elem != NULL))          /*@C12.itr-advances-exactly-one*/
V_ENSURES(V_IMP(itr != NULL && g_itr_in != NULL,
                (*itr == NULL) == (g_C == NULL || (V_OLD(g_itr->diff) >= 0 && V_OLD(g_Cd->next) == NULL))))          /*@C12.itr-ends-iff-no-successor*/
V_ENSURES(V_IMP(itr != NULL && g_itr_in != NULL && *itr == NULL, g_free_calls == V_OLD(g_free_calls) + 1 && g_free_arg == (void *)g_itr))  /*@C12.itr-released-once*/
V_ENSURES(V_IMP(itr != NULL && g_itr_in != NULL && *itr != NULL, g_free_calls == V_OLD(g_free_calls)))
;

V_CONTRACT
void *m_list_itr_get_data(const m_list_itr_t *itr)
V_REQUIRES(v_base_ok())
V_REQUIRES(itr == NULL || (itr == g_itr && v_litr_ok(g_itr)))
V_ASSIGNS()
V_ENSURES(V_RET == ((itr == NULL || g_C == NULL) ? NULL : g_C->userptr))                                            /*@C12.itr-get-current*/
;

V_CONTRACT
int m_list_itr_set_data(m_list_itr_t *itr, void *value)
V_REQUIRES(v_base_ok())
V_REQUIRES(itr == NULL || (itr == g_itr && v_litr_ok(g_itr)))
V_ASSIGNS(itr != NULL && g_C != NULL && value != NULL: g_C->userptr)
V_ENSURES(V_IMP(itr == NULL || g_C == NULL || value == NULL, V_RET == -EINVAL))                                     /*@C12.itr-set-guard*/
V_ENSURES(V_IMP(itr != NULL && g_C != NULL && value != NULL, V_RET == 0 && g_C->userptr == value && g_dtor_calls == V_OLD(g_dtor_calls)))  /*@C12.itr-set-replaces-current-only*/
;

V_CONTRACT
int m_list_itr_insert(m_list_itr_t *itr, void *value)
V_REQUIRES(v_base_ok())
V_REQUIRES(itr == NULL || (itr == g_itr && v_litr_ok(g_itr)))
V_ASSIGNS(g_alloc_calls, g_last_alloc; itr != NULL && value != NULL: g_itr->diff, *g_slot, g_l->len)
V_ENSURES(V_IMP(itr == NULL || value == NULL, V_RET == -EINVAL))                                                    /*@C12.itr-insert-guard*/
V_ENSURES(V_IMP(itr != NULL && value != NULL && V_RET != 0, V_RET == -ENOMEM && *g_slot == g_C && g_l->len == V_OLD(g_l->len)))  /*@C12.itr-insert-failure-keeps-list*/
V_ENSURES(V_IMP(itr != NULL && value != NULL && V_OLD(g_oom_mask) == 0, V_RET == 0))
/* exactly one new node, holding value, spliced in front of the current element; everything else untouched */
V_ENSURES(V_IMP(itr != NULL && value != NULL && V_RET == 0,
                *g_slot != NULL && *g_slot == (list_node *)g_last_alloc && *g_slot != g_C && *g_slot != g_P
                && (*g_slot)->userptr == value && (*g_slot)->next == g_C
                && g_l->len == V_OLD(g_l->len) + 1 && g_itr->diff == V_OLD(g_itr->diff) + 1))                        /*@C12.itr-insert-splices-one-node*/
;

V_CONTRACT
int m_list_itr_remove(m_list_itr_t *itr)
V_REQUIRES(v_base_ok())
V_REQUIRES(itr == NULL || (itr == g_itr && v_litr_ok(g_itr)))
V_ASSIGNS(g_free_calls, g_free_arg, g_free_arg0, g_dtor_calls, g_dtor_arg; itr != NULL && g_C != NULL: *g_slot, g_l->len, g_itr->diff)
V_FREES(g_C)
V_ENSURES(V_IMP(itr == NULL || g_C == NULL, V_RET == -EINVAL && g_free_calls == V_OLD(g_free_calls) && g_dtor_calls == V_OLD(g_dtor_calls)))  /*@C12.itr-remove-guard*/
V_ENSURES(V_IMP(itr != NULL && g_C != NULL,
                V_RET == 0 && *g_slot == V_OLD(g_Cd->next) && g_l->len == V_OLD(g_l->len) - 1 && g_itr->diff == V_OLD(g_itr->diff) - 1
                && g_free_calls == V_OLD(g_free_calls) + 1 && g_free_arg == (void *)g_C))                            /*@C12.itr-remove-unlinks-current*/
V_ENSURES(V_IMP(itr != NULL && g_C != NULL && g_l->dtor != NULL,
                g_dtor_calls == V_OLD(g_dtor_calls) + 1 && g_dtor_arg == V_OLD(g_Cd->userptr)))                      /*@C12.itr-remove-dtor-once-on-removed*/
V_ENSURES(V_IMP(itr != NULL && g_l->dtor == NULL, g_dtor_calls == V_OLD(g_dtor_calls)))
;
