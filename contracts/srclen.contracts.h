/* Contract for m_mod_src_len() (src.c), unbounded: three loop contracts (walk over the subscriptions, loop over the kinds, walk over one kind's set) over abstract iterators.
 * Every element an iterator hands out is (an alias of) the focus source g_psrc; whether it is library-internal is decided anew at every visit (any mixture), and counted:
 * g.visited = elements examined, g.visited_user = those that are not internal.  g_LL[k] = size of kind k's set (k = 0: the subscription table), g_PL[k] = sizes before k. */
static inline bool v_lbit_ok(void) { return g_bit != NULL && V_RW_OK(g_bit, sizeof(struct _bst_itr)) && g_bit->t != NULL && __CPROVER_same_object(g_bit->t, &g_lsets[0]) && g_bit->idx < ((struct _bst *)g_bit->t)->len; }
static inline bool v_lmit_ok(void) { return g_mit != NULL && V_RW_OK(g_mit, sizeof(struct _map_itr)) && g_mit->m == (m_map_t *)&g_lsubs && g_mit->idx < g_lsubs.len; }
V_CONTRACT
m_map_itr_t *m_map_itr_new(const m_map_t *m)
V_REQUIRES(m == (const m_map_t *)&g_lsubs && g_mit != NULL && V_RW_OK(g_mit, sizeof(struct _map_itr)))
V_ASSIGNS(g_mit->m, g_mit->idx)
V_ENSURES(g_lsubs.len == 0 ? V_RET == NULL : (__CPROVER_pointer_equals(V_RET, g_mit) && g_mit->m == (m_map_t *)&g_lsubs && g_mit->idx == 0))
;
V_CONTRACT
int m_map_itr_next(m_map_itr_t **itr)
V_REQUIRES(itr != NULL && V_RW_OK(itr, sizeof(*itr)) && *itr == (m_map_itr_t *)g_mit && v_lmit_ok())
V_ASSIGNS(*itr, g_mit->idx)
V_ENSURES(V_RET == 0 && g_mit->idx == V_OLD(g_mit->idx) + 1 && (g_mit->idx < g_lsubs.len ? *itr == V_OLD(*itr) : *itr == NULL))
;
V_CONTRACT
void *m_map_itr_get_data(const m_map_itr_t *itr)
V_REQUIRES(itr == (const m_map_itr_t *)g_mit && v_lmit_ok())
V_ASSIGNS(g_psrc->flags, g.visited, g.visited_user)
V_ENSURES(__CPROVER_pointer_equals(V_RET, g_psrc) && g.visited == V_OLD(g.visited) + 1 && g.visited_user == V_OLD(g.visited_user) + ((g_psrc->flags & M_SRC_INTERNAL) ? 0 : 1))
;
V_CONTRACT
m_bst_itr_t *m_bst_itr_new(const m_bst_t *l)
V_REQUIRES(l != NULL && __CPROVER_same_object(l, &g_lsets[0]) && g_bit != NULL && V_RW_OK(g_bit, sizeof(struct _bst_itr)))
V_ASSIGNS(g_bit->t, g_bit->idx, g_bit->removed)
V_ENSURES(((const struct _bst *)l)->len == 0 ? V_RET == NULL : (__CPROVER_pointer_equals(V_RET, g_bit) && __CPROVER_pointer_equals(g_bit->t, (m_bst_t *)l) && g_bit->idx == 0 && !g_bit->removed))
;
V_CONTRACT
int m_bst_itr_next(m_bst_itr_t **itr)
V_REQUIRES(itr != NULL && V_RW_OK(itr, sizeof(*itr)) && *itr == (m_bst_itr_t *)g_bit && v_lbit_ok())
V_ASSIGNS(*itr, g_bit->idx)
V_ENSURES(V_RET == 0 && g_bit->idx == V_OLD(g_bit->idx) + 1 && (g_bit->idx < ((struct _bst *)g_bit->t)->len ? *itr == V_OLD(*itr) : *itr == NULL))
;
V_CONTRACT
void *m_bst_itr_get_data(const m_bst_itr_t *itr)
V_REQUIRES(itr == (const m_bst_itr_t *)g_bit && v_lbit_ok())
V_ASSIGNS(g_psrc->flags, g.visited, g.visited_user)
V_ENSURES(__CPROVER_pointer_equals(V_RET, g_psrc) && g.visited == V_OLD(g.visited) + 1 && g.visited_user == V_OLD(g.visited_user) + ((g_psrc->flags & M_SRC_INTERNAL) ? 0 : 1))
;
/* number of elements of the sets selected by `type` that lie before kind i (i >= 1): all kinds for M_SRC_TYPE_END, the one kind otherwise; the subscription table is kind 0 */
#define V_SEL(t, k)     ((t) == M_SRC_TYPE_END || (int)(t) == (k))
#define V_SELPREFIX(t, i) ((t) == M_SRC_TYPE_END ? g_PL[i] : (((int)(t) < (i)) ? g_LL[(int)(t)] : 0))
V_CONTRACT
ssize_t m_mod_src_len(const m_mod_t *mod, m_src_types type)
V_REQUIRES(v_base_ok() && mod == g_mod && V_RW_OK(g_mod, sizeof(m_mod_t)) && v_state_valid(g_mod->state) && g_mod->ctx == g_ctx && g_mit != NULL && V_RW_OK(g_mit, sizeof(struct _map_itr))
           && g_bit != NULL && V_RW_OK(g_bit, sizeof(struct _bst_itr)) && g_psrc != NULL && V_RW_OK(g_psrc, sizeof(ev_src_t)) && g_mod->subscriptions == (m_map_t *)&g_lsubs)
V_REQUIRES(g_mod->srcs[1] == (m_bst_t *)&g_lsets[1] && g_mod->srcs[2] == (m_bst_t *)&g_lsets[2] && g_mod->srcs[3] == (m_bst_t *)&g_lsets[3] && g_mod->srcs[4] == (m_bst_t *)&g_lsets[4]
           && g_mod->srcs[5] == (m_bst_t *)&g_lsets[5] && g_mod->srcs[6] == (m_bst_t *)&g_lsets[6] && g_mod->srcs[7] == (m_bst_t *)&g_lsets[7])
V_REQUIRES(g_LL[0] == g_lsubs.len && g_LL[1] == g_lsets[1].len && g_LL[2] == g_lsets[2].len && g_LL[3] == g_lsets[3].len && g_LL[4] == g_lsets[4].len && g_LL[5] == g_lsets[5].len && g_LL[6] == g_lsets[6].len
           && g_LL[7] == g_lsets[7].len && g_LL[0] < 1000000 && g_LL[1] < 1000000 && g_LL[2] < 1000000 && g_LL[3] < 1000000 && g_LL[4] < 1000000 && g_LL[5] < 1000000 && g_LL[6] < 1000000 && g_LL[7] < 1000000
           && g_PL[0] == 0 && g_PL[1] == g_LL[0] && g_PL[2] == g_PL[1] + g_LL[1] && g_PL[3] == g_PL[2] + g_LL[2] && g_PL[4] == g_PL[3] + g_LL[3] && g_PL[5] == g_PL[4] + g_LL[4] && g_PL[6] == g_PL[5] + g_LL[5]
           && g_PL[7] == g_PL[6] + g_LL[6] && g_PL[8] == g_PL[7] + g_LL[7])
V_REQUIRES(g_v0 == g.visited && g_u0 == g.visited_user)
V_ASSIGNS(g_mit->m, g_mit->idx, g_bit->t, g_bit->idx, g_bit->removed, g_psrc->flags, g.visited, g.visited_user)
V_ENSURES(V_IMP(!(V_G_MOD(mod)), V_RET < 0) && V_IMP(V_G_MOD(mod) && (unsigned)type > M_SRC_TYPE_END, V_RET == -EINVAL))
/* exactly the elements of the set(s) the caller asked for are examined, each once -- one kind's set, or every set for M_SRC_TYPE_END -- and the answer is the number of
 * those that are not library-internal */
V_ENSURES(V_IMP(V_G_MOD(mod) && (unsigned)type <= M_SRC_TYPE_END, g.visited - g_v0 == (type == M_SRC_TYPE_END ? g_PL[8] : g_LL[(unsigned)type])
                && V_RET == (ssize_t)(g.visited_user - g_u0)))                                                       /*@C09.reported-count-equals-the-size-of-that-kinds-set-internal-excluded*/
;
