/* Contracts for m_mod_register() (mod.c): name uniqueness / allow-replace (C15), and m_ctx_set_tick() (ctx.c): tick source replacement (C19). */
#ifdef V_REG_UNIT
V_CONTRACT bool str_not_empty(const char *str) V_REQUIRES(str == NULL || V_R_OK(str, 1)) V_ASSIGNS() V_ENSURES(V_RET == (str != NULL && str[0] != 0));
V_CONTRACT
void *m_map_get(const m_map_t *m, const char *key)
V_REQUIRES(m == g_modules && key != NULL)
V_ASSIGNS()
V_ENSURES(__CPROVER_pointer_equals(V_RET, (void *)g_oldmod))
;
V_CONTRACT
int mod_deregister(m_mod_t **mod, bool from_user)
V_REQUIRES(mod != NULL && *mod == g_oldmod && g_oldmod != NULL && !from_user)
V_ASSIGNS(g.dereg_calls, g.dereg_at_memnew)
V_ENSURES(V_RET == g_dereg_ret && g.dereg_calls == V_OLD(g.dereg_calls) + 1 && g.dereg_at_memnew == g.memnew_calls)
;
V_CONTRACT
void *m_mem_new(size_t size, m_ref_dtor dtor)
V_REQUIRES(size == sizeof(m_mod_t))
V_ASSIGNS(g.memnew_calls)
V_ENSURES(__CPROVER_is_fresh(V_RET, sizeof(m_mod_t)) && g.memnew_calls == V_OLD(g.memnew_calls) + 1)
;
V_CONTRACT int init_src(m_mod_t *mod, m_src_types t) V_REQUIRES(mod != NULL && t < M_SRC_TYPE_END) V_ASSIGNS(g.initsrc_calls) V_ENSURES(V_RET == 0 && g.initsrc_calls == V_OLD(g.initsrc_calls) + 1);
V_CONTRACT m_stack_t *m_stack_new(m_stack_dtor fn) V_REQUIRES(1) V_ASSIGNS() V_ENSURES(__CPROVER_is_fresh(V_RET, sizeof(struct _stack)));
V_CONTRACT m_list_t *m_list_new(m_list_cmp c, m_list_dtor fn) V_REQUIRES(1) V_ASSIGNS() V_ENSURES(__CPROVER_is_fresh(V_RET, sizeof(struct _list)));
V_CONTRACT
int m_map_put(m_map_t *m, const char *key, void *value)
V_REQUIRES(m == g_modules && key != NULL && value != NULL)
V_ASSIGNS(g.mapput_calls, g.mapput_val, g_modules->len)
V_ENSURES(V_RET == g_mapput_ret && g.mapput_calls == V_OLD(g.mapput_calls) + 1 && __CPROVER_pointer_equals(g.mapput_val, value))
;
V_CONTRACT
int m_mod_register(const char *name, m_mod_t **mod_ref, const m_mod_hook_t *hook, m_mod_flags flags, const void *userdata)
V_REQUIRES(v_base_ok() && name != NULL && V_R_OK(name, 2) && name[0] != 0 && hook != NULL && V_R_OK(hook, sizeof(m_mod_hook_t)) && hook->on_evt != NULL && !(flags & M_MOD_NAME_DUP))
V_REQUIRES(g_mctx == g_ctx && V_RW_OK(g_ctx, sizeof(m_ctx_t)) && g_ctx->modules == g_modules && v_map_ok_fn(g_modules) && !g_ctx->finalized)
V_REQUIRES((g_oldmod == NULL || (g_oldmod == g_mod && V_RW_OK(g_mod, sizeof(m_mod_t)))) && mod_ref == &g_modref && g.dereg_calls == 0 && g.memnew_calls == 0)
V_ASSIGNS(g.dereg_calls, g.dereg_at_memnew, g.memnew_calls, g.ref_calls, g.ref_arg, g.unref_calls, g.unref_arg, g.unref_arg_prev, g.initsrc_calls, g.qnew_calls, g.qnew_ret, g.mapput_calls, g.mapput_val,
          g_modules->len, g.fetch_calls, g_modref)
/* names are unique: a live name is refused with EEXIST -- nothing is deregistered, nothing is created -- unless the EXISTING module allows replacement */
V_ENSURES(V_IMP(g_oldmod != NULL && !(g_mod->flags & M_MOD_ALLOW_REPLACE), V_RET == -EEXIST && g.dereg_calls == 0 && g.memnew_calls == 0 && g.mapput_calls == V_OLD(g.mapput_calls)
                && g_modref == V_OLD(g_modref)))                                                                                            /*@C15.live-name-refused-unless-the-existing-module-allows-replacement*/
/* ... in which case the existing module is deregistered FIRST (before the new one is created), exactly once; if that fails nothing is created */
V_ENSURES(V_IMP(g_oldmod != NULL && (g_mod->flags & M_MOD_ALLOW_REPLACE), g.dereg_calls == 1 && g.dereg_at_memnew == 0
                && V_IMP(g_dereg_ret != 0, V_RET == g_dereg_ret && g.memnew_calls == 0)))                                                    /*@C15.replaceable-module-deregistered-first*/
V_ENSURES(V_IMP(g_oldmod == NULL, g.dereg_calls == 0))
/* success: exactly one new module entered in the context's table under that name, handed back to the caller with its own reference */
V_ENSURES(V_IMP(V_RET == 0, g.memnew_calls == 1 && g.mapput_calls == V_OLD(g.mapput_calls) + 1 && g_modref == (m_mod_t *)g.mapput_val && g.initsrc_calls == M_SRC_TYPE_END))  /*@C15.one-new-module-registered-under-the-name*/
;
#endif

#ifdef V_SETTICK_UNIT
V_CONTRACT
int deregister_ctx_src(m_ctx_t *c, ev_src_t **src)
V_REQUIRES(c == g_ctx && src == &g_ctx->tick.src)
V_ASSIGNS(g.ctxsrc_dereg_calls, g.ctxsrc_dereg_had, g_ctx->tick.src)
V_ENSURES(g.ctxsrc_dereg_calls == V_OLD(g.ctxsrc_dereg_calls) + 1 && g.ctxsrc_dereg_had == (V_OLD(g_ctx->tick.src) != NULL) && g_ctx->tick.src == NULL)
;
V_CONTRACT
ev_src_t *register_ctx_src(m_ctx_t *c, m_src_types type, process_cb proc, const void *src_data)
V_REQUIRES(c == g_ctx && src_data == (const void *)&g_ctx->tick && g_ctx->tick.src == NULL)            /*@C19.old-tick-source-removed-before-a-new-one-is-made*/
V_ASSIGNS(g.ctxsrc_reg_calls, g.ctxsrc_reg_ns, g.ctxsrc_reg_type)
V_ENSURES(g.ctxsrc_reg_calls == V_OLD(g.ctxsrc_reg_calls) + 1 && g.ctxsrc_reg_ns == g_ctx->tick.tmr.ns && g.ctxsrc_reg_type == (int)type && __CPROVER_pointer_equals(V_RET, (void *)g_newsrc))
;
V_CONTRACT
int m_ctx_set_tick(uint64_t ns)
V_REQUIRES(v_base_ok() && (g_mctx == NULL || (g_mctx == g_ctx && V_RW_OK(g_ctx, sizeof(m_ctx_t)))))
V_ASSIGNS(g_mctx != NULL: g.ctxsrc_dereg_calls, g.ctxsrc_dereg_had, g.ctxsrc_reg_calls, g.ctxsrc_reg_ns, g.ctxsrc_reg_type, g_ctx->tick.src, g_ctx->tick.tmr)
V_ENSURES(V_IMP(g_mctx == NULL, V_RET == -EPIPE))
/* the tick source always carries the CURRENTLY configured period: any previous source is removed, and for a non-zero period a new timer source armed
 * with exactly that period takes its place (so ticks never come more often than configured); period 0 leaves no tick source */
V_ENSURES(V_IMP(g_mctx != NULL, V_RET == 0 && g.ctxsrc_dereg_calls == V_OLD(g.ctxsrc_dereg_calls) + 1
                && g.ctxsrc_reg_calls == V_OLD(g.ctxsrc_reg_calls) + (ns != 0 ? 1 : 0)
                && (ns != 0 ? (g.ctxsrc_reg_ns == ns && g.ctxsrc_reg_type == M_SRC_TYPE_TMR && g_ctx->tick.tmr.ns == ns && g_ctx->tick.src == g_newsrc) : g_ctx->tick.src == NULL)))  /*@C19.tick-source-re-armed-with-the-configured-period*/
;
#endif
