/* Contracts for poll_set_new_evt() (poll/epoll.c, with create_priv_fd() of poll/cmn_linux.c as real callee) and src_priv_dtor() (src.c). */
#define V_FD_CREATOR(decl) \
V_CONTRACT decl \
V_REQUIRES(g_open_fd == -1) \
V_ASSIGNS(g.fd_opened, g_open_fd, g_errno) \
V_ENSURES(V_RET == g_newfd && (g_newfd == -1 || g_newfd >= V_LIBFD_BASE) && g.fd_opened == V_OLD(g.fd_opened) + 1 && g_open_fd == (g_newfd == -1 ? -1 : g_newfd)) \
;
V_FD_CREATOR(int v_timerfd_create(int clockid, int flags))
V_FD_CREATOR(int v_signalfd(int fd, const sigset_t *mask, int flags))
V_FD_CREATOR(int v_inotify_init1(int flags))
V_FD_CREATOR(int v_eventfd(unsigned int initval, int flags))
V_CONTRACT int v_timerfd_settime(int fd, int flags, const struct itimerspec *n, struct itimerspec *o) V_REQUIRES(1) V_ASSIGNS(g_errno) V_ENSURES(1);
V_CONTRACT int v_sigprocmask(int how, const sigset_t *set, sigset_t *old) V_REQUIRES(1) V_ASSIGNS(g_errno) V_ENSURES(1);
V_CONTRACT int v_inotify_add_watch(int fd, const char *path, uint32_t mask) V_REQUIRES(1) V_ASSIGNS(g_errno) V_ENSURES(1);
V_CONTRACT
int v_epoll_ctl(int epfd, int op, int fd, struct epoll_event *ev)
V_REQUIRES(ev != NULL)
V_ASSIGNS(g.epoll_calls, g.epoll_op, g.epoll_fd, g_errno)
V_ENSURES(V_RET == g_ep_ret && g.epoll_calls == V_OLD(g.epoll_calls) + 1 && g.epoll_op == op && g.epoll_fd == fd)
;

#ifdef V_POLL_UNIT
V_CONTRACT
int poll_set_new_evt(poll_priv_t *priv, ev_src_t *tmp, const enum op_type flag)
V_REQUIRES(v_base_ok() && priv == &g_ppriv && priv->data == (void *)&g_ep && tmp == g_psrc && V_RW_OK(g_psrc, sizeof(ev_src_t)) && g_psrc->type < M_SRC_TYPE_END)
V_REQUIRES(g_psrc->ev == NULL || (g_psrc->ev == g_ev && V_RW_OK(g_ev, sizeof(struct epoll_event))))
/* ownership in the pre-state: a registered source of a library-made kind holds its open descriptor; an unregistered one holds none */
V_REQUIRES(g_psrc->type > M_SRC_TYPE_FD ? (g_psrc->ev != NULL ? (g_psrc->fd_src.fd == g_open_fd && g_open_fd >= V_LIBFD_BASE) : (g_psrc->fd_src.fd == -1 && g_open_fd == -1))
                                        : (g_psrc->fd_src.fd >= 0 && g_psrc->fd_src.fd < V_LIBFD_BASE && g_open_fd == -1))
V_REQUIRES(flag == ADD || flag == RM)
/* a source is added to the poll set only when it is not in it (start/resume/registration paths; assumption on the callers) */
V_REQUIRES(flag == RM || g_psrc->ev == NULL)
V_ASSIGNS(g, g_alloc_calls, g_last_alloc, g_free_calls, g_free_arg, g_free_arg0, g_open_fd, g_errno, g_psrc->ev, g_psrc->fd_src.fd; g_psrc->ev != NULL: g_ev->events, g_ev->data)
V_FREES(g_ev)
/* removing a source that is not registered in the poll set does nothing */
V_ENSURES(V_IMP(flag == RM && V_OLD(g_psrc->ev) == NULL, V_RET == 0 && g.close_calls == V_OLD(g.close_calls) && g.epoll_calls == V_OLD(g.epoll_calls)))
/* removal of a registered source: the library-made descriptor (timer/signal/inotify/pid/event fd) is closed exactly once and
 * forgotten; a user-supplied descriptor (fd source, and the pipe end of a PS source) is NOT closed here */
V_ENSURES(V_IMP(flag == RM && V_OLD(g_psrc->ev) != NULL && g_psrc->type > M_SRC_TYPE_FD,
                g.close_calls == V_OLD(g.close_calls) + 1 && g.close_arg == V_OLD(g_psrc->fd_src.fd) && g_psrc->fd_src.fd == -1 && g_open_fd == -1))      /*@C20.library-descriptor-closed-exactly-once-on-removal*/
V_ENSURES(V_IMP(g_psrc->type <= M_SRC_TYPE_FD, g.close_calls == V_OLD(g.close_calls) && g_psrc->fd_src.fd == V_OLD(g_psrc->fd_src.fd) && g.fd_opened == V_OLD(g.fd_opened)))  /*@C20.user-descriptor-never-closed-by-poll-removal*/
V_ENSURES(V_IMP(flag == RM && V_OLD(g_psrc->ev) != NULL, g_psrc->ev == NULL && g_free_calls == V_OLD(g_free_calls) + 1 && g.epoll_calls == V_OLD(g.epoll_calls) + 1 && g.epoll_op == EPOLL_CTL_DEL))
/* registration: one library descriptor is made for library-made kinds (none for fd/PS), one-shot sources are armed one-shot */
V_ENSURES(V_IMP(flag == ADD && V_OLD(g_psrc->ev) == NULL && !V_OLD(g_oom_mask),
                g.fd_opened == V_OLD(g.fd_opened) + (g_psrc->type > M_SRC_TYPE_FD ? 1 : 0) && g.close_calls == V_OLD(g.close_calls) && g_psrc->ev != NULL
                && g.epoll_calls == V_OLD(g.epoll_calls) + 1 && g.epoll_op == EPOLL_CTL_ADD && g.epoll_fd == g_psrc->fd_src.fd
                && ((((struct epoll_event *)g_psrc->ev)->events & EPOLLONESHOT) != 0) == ((g_psrc->flags & M_SRC_ONESHOT) != 0)))                         /*@C03.one-shot-source-armed-one-shot*/
;
#endif

#if defined(V_SRCDTOR_UNIT) || defined(V_CTXSRC_UNIT)
V_CONTRACT
int poll_set_new_evt(poll_priv_t *priv, ev_src_t *tmp, const enum op_type flag)
V_REQUIRES(tmp == g_psrc && flag == RM && priv == &g_ctx->ppriv)
V_ASSIGNS(g.pollrm_calls, g_psrc->ev, g_psrc->fd_src.fd, g_open_fd, g.close_calls, g.close_arg)
V_ENSURES(g.pollrm_calls == V_OLD(g.pollrm_calls) + 1 && g_psrc->ev == NULL
          && (g_psrc->type > M_SRC_TYPE_FD && V_OLD(g_psrc->ev) != NULL ? (g_psrc->fd_src.fd == -1 && g_open_fd == -1 && g.close_calls == V_OLD(g.close_calls) + 1)
                                                                        : (g_psrc->fd_src.fd == V_OLD(g_psrc->fd_src.fd) && g_open_fd == V_OLD(g_open_fd) && g.close_calls == V_OLD(g.close_calls))))
;
#endif
#ifdef V_SRCDTOR_UNIT
V_CONTRACT
static void src_priv_dtor(void *data)
V_REQUIRES(v_base_ok() && data == (void *)g_psrc && V_RW_OK(g_psrc, sizeof(ev_src_t)) && g_psrc->type < M_SRC_TYPE_END && (g_psrc->mod == NULL || (g_psrc->mod == g_mod && V_R_OK(g_mod, sizeof(m_mod_t)) && g_mod->ctx == g_ctx)))
/* ownership in the pre-state (as above); for fd / PS sources with AUTOCLOSE the user's descriptor has been handed to the library */
V_REQUIRES(g_psrc->type > M_SRC_TYPE_FD ? (g_psrc->ev != NULL ? (g_psrc->fd_src.fd == g_open_fd && g_open_fd >= V_LIBFD_BASE) : (g_psrc->fd_src.fd == -1 && g_open_fd == -1))
                                        : (g_psrc->fd_src.fd >= 0 && ((g_psrc->flags & M_SRC_FD_AUTOCLOSE) ? g_open_fd == g_psrc->fd_src.fd : g_open_fd == -1)))
V_REQUIRES(!(g_psrc->flags & M_SRC_DUP) && !(g_psrc->flags & M_SRC_AUTOFREE))
/* context-level sources (no module: the tick) are taken out of the poll set by deregister_ctx_src() before their last reference goes */
V_REQUIRES(g_psrc->mod != NULL || g_psrc->ev == NULL)
V_ASSIGNS(g.pollrm_calls, g_psrc->ev, g_psrc->fd_src.fd, g_open_fd, g.close_calls, g.close_arg)
/* every descriptor the library made for this source is closed by the time the source is destroyed -- whatever state its module
 * is in by then (a source can outlive its stopped module while a user still holds one of its events) */
V_ENSURES(V_IMP(g_psrc->type > M_SRC_TYPE_FD, g_open_fd == -1 && g_psrc->ev == NULL))                                                        /*@C20.library-descriptor-closed-by-the-time-the-source-is-destroyed*/
/* a user-supplied descriptor is closed exactly when it was registered with the auto-close flag, once; otherwise never */
V_ENSURES(V_IMP(g_psrc->type <= M_SRC_TYPE_FD, g.close_calls == V_OLD(g.close_calls) + ((g_psrc->flags & M_SRC_FD_AUTOCLOSE) ? 1 : 0)
                && V_IMP(g_psrc->flags & M_SRC_FD_AUTOCLOSE, g.close_arg == V_OLD(g_psrc->fd_src.fd))))                                     /*@C20.user-descriptor-closed-iff-autoclose-exactly-once*/
;
#endif

#ifdef V_CTXSRC_UNIT
/* deregister_ctx_src() (src.c): removal of a context-level source (the tick timer).  src_priv_dtor() does NOT take module-less sources out of the
 * poll set (its contract above assumes this function did), so this is the one place where the tick's timer descriptor is closed. */
V_CONTRACT
int deregister_ctx_src(m_ctx_t *c, ev_src_t **src)
V_REQUIRES(v_base_ok() && c == g_ctx && V_RW_OK(g_ctx, sizeof(m_ctx_t)) && (src == NULL || src == &g_ctx->tick.src))
V_REQUIRES(g_ctx->tick.src == NULL || (g_ctx->tick.src == g_psrc && V_RW_OK(g_psrc, sizeof(ev_src_t)) && g_psrc->type == M_SRC_TYPE_TMR && g_psrc->mod == NULL
           && (g_psrc->ev != NULL ? (g_psrc->fd_src.fd == g_open_fd && g_open_fd >= V_LIBFD_BASE) : (g_psrc->fd_src.fd == -1 && g_open_fd == -1))))
V_ASSIGNS(src != NULL && g_ctx->tick.src != NULL: g.pollrm_calls, g_psrc->ev, g_psrc->fd_src.fd, g_open_fd, g.close_calls, g.close_arg, g.unrefp_calls, g_ctx->tick.src)
/* whatever the state of the loop (a source can be removed from a callback that runs while the loop is winding down), the source leaves the poll set --
 * which is what closes its timer descriptor -- before the reference is dropped */
V_ENSURES(V_IMP(src != NULL && V_OLD(g_ctx->tick.src) != NULL, V_RET == 0 && g.pollrm_calls == V_OLD(g.pollrm_calls) + 1 && g_open_fd == -1 && g_psrc->ev == NULL
                && g.unrefp_calls == V_OLD(g.unrefp_calls) + 1 && g_ctx->tick.src == NULL))                                                 /*@C20.context-source-descriptor-closed-when-the-source-is-removed*/
V_ENSURES(V_IMP(src == NULL || V_OLD(g_ctx->tick.src) == NULL, V_RET == 0 && g.pollrm_calls == V_OLD(g.pollrm_calls) && g.unrefp_calls == V_OLD(g.unrefp_calls)))
;
#endif

#ifdef V_POLLCD_UNIT
/* poll_create() / poll_destroy() (real epoll.c): the context's own poll descriptor is made once and closed exactly once when the context goes */
V_FD_CREATOR(int v_epoll_create1(int flags))
V_CONTRACT
int poll_create(poll_priv_t *priv)
V_REQUIRES(v_base_ok() && priv == &g_ppriv && g_open_fd == -1 && !g_oom_mask)
V_ASSIGNS(g_ppriv.data, g.fd_opened, g_open_fd, g_errno, g_alloc_calls, g_last_alloc)
V_ENSURES(g.fd_opened == V_OLD(g.fd_opened) + 1 && g_ppriv.data != NULL && V_RET == (g_newfd != -1 ? 0 : -1) && ((epoll_priv_t *)g_ppriv.data)->fd == g_newfd && g_open_fd == g_newfd
          && ((epoll_priv_t *)g_ppriv.data)->pevents == NULL)                                                               /*@C20.one-poll-descriptor-per-context*/
;
V_CONTRACT
int poll_destroy(poll_priv_t *priv)
V_REQUIRES(v_base_ok() && priv == &g_ppriv && g_ppriv.data == (void *)&g_ep && g_ep.fd == g_open_fd && g_open_fd >= V_LIBFD_BASE && (g_ep.pevents == NULL || g_ep.pevents == g_pev))
V_ASSIGNS(g.close_calls, g.close_arg, g_open_fd, g_ep.pevents, g_free_calls, g_free_arg, g_free_arg0)
V_FREES(g_pev)
/* the poll descriptor of the context is closed exactly once, and the event buffer is given back */
V_ENSURES(V_RET == 0 && g.close_calls == V_OLD(g.close_calls) + 1 && g.close_arg == V_OLD(g_open_fd) && g_open_fd == -1 && g_ep.pevents == NULL)   /*@C20.context-poll-descriptor-closed-with-the-context*/
;
#endif
