/* Contracts for Lib/core/mod.c: lifecycle (C01), system notifications (C19), guards (C07, C14, C15, C18). */

#define V_INV        (g_ctx->stats.running_modules == g_others_running + ((g_mod->state == M_MOD_RUNNING) ? 1 : 0))
#define V_MOD_OK     (V_RW_OK(g_mod, sizeof(m_mod_t)) && g_mod->ctx == g_ctx && V_RW_OK(g_ctx, sizeof(m_ctx_t)) && v_state_valid(g_mod->state) \
                      && g_others_running < ((size_t)1 << 60) && g_mod->recvs == g_recvs && V_S_OK(g_recvs))
enum { V_T_OTHER = 0, V_T_MOD_STARTED, V_T_MOD_STOPPED, V_T_CTX_STARTED, V_T_CTX_STOPPED, V_T_TICK, V_T_PILL };
static inline int v_topic_kind(const char *t) {           /* which system topic (compares the distinguishing characters) */
    if (t == NULL || t[0] != 'L' || t[9] != '_') return V_T_OTHER;
    if (t[10] == 'M' && t[14] == 'S' && t[16] == 'A') return V_T_MOD_STARTED;
    if (t[10] == 'M' && t[14] == 'S' && t[16] == 'O') return V_T_MOD_STOPPED;
    if (t[10] == 'M' && t[14] == 'P') return V_T_PILL;
    if (t[10] == 'C' && t[14] == 'S' && t[16] == 'A') return V_T_CTX_STARTED;
    if (t[10] == 'C' && t[14] == 'S' && t[16] == 'O') return V_T_CTX_STOPPED;
    if (t[10] == 'C' && t[14] == 'T') return V_T_TICK;
    return V_T_OTHER;
}

/* precise ghost frames (a whole-struct `g` in a callee's assigns clause would havoc every counter the caller reasons about) */
#define V_G_SYS   g.sys_msgs, g.sys_topic, g.sys_sender, g.sys_kind, g.sys_started, g.sys_stopped, g.sys_ctx_started, g.sys_ctx_stopped, g.sys_tick, g.sys_pill
#define V_G_MS    g.ms_calls, g.ms_flag, g.ms_stop, g.srcs_dropped
#define V_G_HOOK  g_ctx->curr_mod, g.ref_calls, g.ref_arg, g.unref_calls, g.unref_arg, g.unref_arg_prev
#define V_STOP_FRAME  V_G_SYS, V_G_MS, V_G_HOOK, g.reset_calls, g.ips_calls, V_CB_FRAME, g_mod->pubsub_fd[0], g_mod->pubsub_fd[1], g_mod->tb.rate, g_mod->tb.burst

/* ---- callees ------------------------------------------------------------------------------------------------------- */
V_CONTRACT
int tell_system_pubsub_msg(const m_mod_t *recipient, m_ctx_t *c, m_mod_t *sender, const char *topic)
V_REQUIRES(c == g_ctx && topic != NULL && (sender == NULL || sender == g_mod))
V_ASSIGNS(V_G_SYS; sender != NULL: g_mod->stats.sent_msgs)
V_ENSURES(V_RET == 0 && g.sys_msgs == V_OLD(g.sys_msgs) + 1 && __CPROVER_pointer_equals(g.sys_sender, sender) && g.sys_kind == v_topic_kind(topic))
V_ENSURES(g.sys_started == V_OLD(g.sys_started) + (v_topic_kind(topic) == V_T_MOD_STARTED ? 1 : 0) && g.sys_stopped == V_OLD(g.sys_stopped) + (v_topic_kind(topic) == V_T_MOD_STOPPED ? 1 : 0))
V_ENSURES(g.sys_ctx_started == V_OLD(g.sys_ctx_started) + (v_topic_kind(topic) == V_T_CTX_STARTED ? 1 : 0) && g.sys_ctx_stopped == V_OLD(g.sys_ctx_stopped) + (v_topic_kind(topic) == V_T_CTX_STOPPED ? 1 : 0)
          && g.sys_tick == V_OLD(g.sys_tick) + (v_topic_kind(topic) == V_T_TICK ? 1 : 0) && g.sys_pill == V_OLD(g.sys_pill) + (v_topic_kind(topic) == V_T_PILL ? 1 : 0))
;

V_CONTRACT
static int init_pubsub_fd(m_mod_t *mod)
V_REQUIRES(mod == g_mod)
V_ASSIGNS(g.ips_calls, g_mod->pubsub_fd[0], g_mod->pubsub_fd[1], g_errno, g_mod->tb.tokens)
V_ENSURES(V_RET == g_ips_ret && g.ips_calls == V_OLD(g.ips_calls) + 1)
;

V_CONTRACT
static int manage_srcs(m_mod_t *mod, m_ctx_t *c, int flag, bool stop)
V_REQUIRES(mod == g_mod && c == g_ctx)
V_ASSIGNS(g.ms_calls, g.ms_flag, g.ms_stop, g.srcs_dropped, g_errno)
V_ENSURES(V_RET == g_ms_ret && g.ms_calls == V_OLD(g.ms_calls) + 1 && g.ms_flag == flag && g.ms_stop == stop
          && g.srcs_dropped == V_OLD(g.srcs_dropped) + ((flag == RM && stop && V_RET == 0) ? 1 : 0))
;

V_CONTRACT
static void reset_module(m_mod_t *mod)
V_REQUIRES(mod == g_mod)
V_ASSIGNS(g.reset_calls, g_mod->pubsub_fd[0], g_mod->pubsub_fd[1], g_mod->batch.len, g_mod->tb.rate, g_mod->tb.burst, g_mod->tb.tokens, g_recvs->len, g_recvs->top)
V_ENSURES(g.reset_calls == V_OLD(g.reset_calls) + 1 && g_recvs->len == 0 && g_recvs->top == NULL && g_mod->batch.len == 0 && g_mod->tb.rate == 0
          && g_mod->tb.tokens == UINT64_MAX && g_mod->tb.burst == UINT64_MAX)
;

/* optional_hook(): runs one user callback as the current module; as a callee its effect is "anything the public API allows"
 * (callback frame), it reports -ENOENT exactly when the module was deregistered inside, -1 exactly for a false start/eval */
V_CONTRACT
static int optional_hook(m_mod_t *mod, enum mod_hook req_hook)
V_REQUIRES(mod == g_mod && V_MOD_OK && V_INV && (g_ctx->curr_mod == NULL || g_ctx->curr_mod == g_mod))                                        /*@C01.running-count-exact-before-callback*/ /*@C03.loop-exit-condition-counts-exactly-the-running-modules*/
V_ASSIGNS(V_CB_FRAME, V_G_HOOK)
/* the context's current module is what it was before: a nested callback (e.g. stop called from inside a handler) must not
 * end the outer callback's status as current module (deny-context flag is enforced through it) */
V_ENSURES(V_MOD_OK && V_INV)
V_ENSURES(g_ctx->curr_mod == V_OLD(g_ctx->curr_mod))                                                                                         /*@C15.current-module-restored-after-nested-callback*/
V_ENSURES((g_mod->state == V_OLD(g_mod->state) || g_mod->state == M_MOD_ZOMBIE)
          && g.sys_stopped == V_OLD(g.sys_stopped) + ((g_mod->state == M_MOD_ZOMBIE && V_OLD(g_mod->state) != M_MOD_ZOMBIE) ? 1 : 0)
          && g.sys_msgs == V_OLD(g.sys_msgs) + ((g_mod->state == M_MOD_ZOMBIE && V_OLD(g_mod->state) != M_MOD_ZOMBIE) ? 1 : 0))
V_ENSURES((V_RET == 0 || V_RET == -1 || V_RET == -ENOENT) && (V_RET == -ENOENT) == (g_mod->state == M_MOD_ZOMBIE))
/* a refusal (-1) comes only from a start / evaluation callback that exists and returned false */
V_ENSURES(V_IMP(V_RET == -1, (req_hook == MOD_START && g_mod->hook.on_start != NULL) || (req_hook == MOD_EVAL && g_mod->hook.on_eval != NULL)))
/* the module is pinned while user code runs */
V_ENSURES(g.ref_calls == V_OLD(g.ref_calls) + 1 && __CPROVER_pointer_equals(g.ref_arg, (void *)g_mod) && g.unref_calls == V_OLD(g.unref_calls) + 1 && __CPROVER_pointer_equals(g.unref_arg, (void *)g_mod))   /*@C04.module-pinned-during-callback*/
V_ENSURES(g.on_start_calls == V_OLD(g.on_start_calls) + ((req_hook == MOD_START && g_mod->hook.on_start != NULL) ? 1 : 0)
          && g.on_stop_calls == V_OLD(g.on_stop_calls) + ((req_hook == MOD_STOP && g_mod->hook.on_stop != NULL) ? 1 : 0)
          && g.on_eval_calls == V_OLD(g.on_eval_calls) + ((req_hook == MOD_EVAL && g_mod->hook.on_eval != NULL) ? 1 : 0))
;

/* ---- start / stop -------------------------------------------------------------------------------------------------- */
V_CONTRACT
int stop(m_mod_t *mod, bool stopping)
V_REQUIRES(v_base_ok() && mod == g_mod && V_MOD_OK && V_INV && (g_ctx->curr_mod == NULL || g_ctx->curr_mod == g_mod) && g_mod->state != M_MOD_ZOMBIE)
/* documented edges: pause only from RUNNING; stop from RUNNING or PAUSED (deregistration may stop any non-zombie state: one edge old -> ZOMBIE) */
V_REQUIRES(stopping || g_mod->state == M_MOD_RUNNING)                                                                                       /*@C01.pause-only-from-running*/
V_ASSIGNS(V_STOP_FRAME)
V_ENSURES(V_MOD_OK && V_INV && g_ctx->curr_mod == V_OLD(g_ctx->curr_mod))                 /*@C01.running-count-equals-running-modules*/ /*@C03.loop-exit-condition-counts-exactly-the-running-modules*/                                                                         /*@C01.running-count-equals-running-modules*/
V_ENSURES(V_IMP(g_ms_ret != 0, V_RET == g_ms_ret && g_mod->state == V_OLD(g_mod->state) && g.on_stop_calls == V_OLD(g.on_stop_calls) && g.sys_msgs == V_OLD(g.sys_msgs) && g.reset_calls == V_OLD(g.reset_calls)))
/* whatever non-zombie state the module is in (a PAUSED module can be stopped too), its sources are taken out of the poll set and -- on a stop -- dropped from the registry */
V_ENSURES(g.on_eval_calls == V_OLD(g.on_eval_calls) && g.ms_calls == V_OLD(g.ms_calls) + 1 && g.ms_flag == RM && g.ms_stop == stopping && g.ips_calls == V_OLD(g.ips_calls))   /*@C09.all-sources-dropped-when-the-module-is-stopped*/ /*@C01.stop-removes-sources-in-every-state*/
/* every pin taken on the module while stopping (the stop callback's) is dropped again */
V_ENSURES(g.ref_calls - V_OLD(g.ref_calls) == g.unref_calls - V_OLD(g.unref_calls))                                                          /*@C04.pins-balanced-across-stop*/
/* pause: RUNNING -> PAUSED, neither callback runs, sources kept, one MOD_STOPPED notification naming the module */
V_ENSURES(V_IMP(g_ms_ret == 0 && !stopping, V_RET == 0 && g_mod->state == M_MOD_PAUSED && g.on_stop_calls == V_OLD(g.on_stop_calls) && g.on_start_calls == V_OLD(g.on_start_calls)
                && g.reset_calls == V_OLD(g.reset_calls) && g.srcs_dropped == V_OLD(g.srcs_dropped)))                                        /*@C01.pause-runs-no-callback-keeps-sources*/
V_ENSURES(V_IMP(g_ms_ret == 0 && !stopping, g.sys_stopped == V_OLD(g.sys_stopped) + 1 && g.sys_msgs == V_OLD(g.sys_msgs) + 1 && __CPROVER_pointer_equals(g.sys_sender, g_mod)))  /*@C19.one-stopped-notification-per-pause*/
/* stop: sources dropped, module reset, stop callback exactly once (through optional_hook), then one MOD_STOPPED unless the
 * module was deregistered inside its stop callback (the nested deregistration emitted it) */
V_ENSURES(V_IMP(g_ms_ret == 0 && stopping, g.srcs_dropped == V_OLD(g.srcs_dropped) + 1 && g.reset_calls == V_OLD(g.reset_calls) + 1
                && (g_mod->state == M_MOD_STOPPED || g_mod->state == M_MOD_ZOMBIE)
                && g.on_stop_calls == V_OLD(g.on_stop_calls) + (g_mod->hook.on_stop != NULL ? 1 : 0) && g.on_start_calls == V_OLD(g.on_start_calls)))  /*@C01.stop-callback-exactly-once*/ /*@C07.running-or-paused-module-stopped-through-its-stop-callback*/
V_ENSURES(V_IMP(g_ms_ret == 0 && stopping, V_RET == (g_mod->state == M_MOD_ZOMBIE ? -ENOENT : 0)
                && g.sys_stopped == V_OLD(g.sys_stopped) + 1 && g.sys_started == V_OLD(g.sys_started)))     /*@C19.one-stopped-notification-per-stop*/
;

V_CONTRACT
int start(m_mod_t *mod, bool starting)
V_REQUIRES(v_base_ok() && mod == g_mod && V_MOD_OK && V_INV && (g_ctx->curr_mod == NULL || g_ctx->curr_mod == g_mod))
/* documented edges: start from IDLE or STOPPED, resume from PAUSED */
V_REQUIRES(starting ? (g_mod->state == M_MOD_IDLE || g_mod->state == M_MOD_STOPPED) : g_mod->state == M_MOD_PAUSED)                          /*@C01.start-only-from-idle-stopped-resume-only-from-paused*/
V_ASSIGNS(V_STOP_FRAME)
V_ENSURES(V_MOD_OK && V_INV && g_ctx->curr_mod == V_OLD(g_ctx->curr_mod))                 /*@C01.running-count-equals-running-modules*/ /*@C03.loop-exit-condition-counts-exactly-the-running-modules*/                                                                       /*@C01.running-count-equals-running-modules*/
/* environment failure (pipe / poll registration): error, state unchanged, no callback, no notification */
V_ENSURES(V_IMP((starting && g_ips_ret != 0) || g_ms_ret != 0, V_RET != 0 && g_mod->state == V_OLD(g_mod->state) && g.on_start_calls == V_OLD(g.on_start_calls)
                && g.sys_msgs == V_OLD(g.sys_msgs)))
V_ENSURES(g.on_eval_calls == V_OLD(g.on_eval_calls) && g.ips_calls == V_OLD(g.ips_calls) + (starting ? 1 : 0))
V_ENSURES(V_IMP(!starting, g.ms_calls == V_OLD(g.ms_calls) + 1 && g.ms_flag == ADD && g.reset_calls == V_OLD(g.reset_calls)))
V_ENSURES(V_IMP(starting, g.ms_calls >= V_OLD(g.ms_calls) + (g_ips_ret == 0 ? 1 : 0)))
/* resume: PAUSED -> RUNNING, neither callback, one MOD_STARTED */
V_ENSURES(V_IMP(!starting && g_ms_ret == 0, V_RET == 0 && g_mod->state == M_MOD_RUNNING && g.on_start_calls == V_OLD(g.on_start_calls) && g.on_stop_calls == V_OLD(g.on_stop_calls)
                && g.sys_started == V_OLD(g.sys_started) + 1 && g.sys_stopped == V_OLD(g.sys_stopped) && __CPROVER_pointer_equals(g.sys_sender, g_mod)))             /*@C01.resume-runs-no-callback*/
/* start: start callback exactly once per entry into RUNNING; accepted => one MOD_STARTED; refused => stopped again through stop()
 * (one stop, hence one MOD_STOPPED, no MOD_STARTED); deregistered inside => nothing more */
V_ENSURES(V_IMP(starting && g_ips_ret == 0 && g_ms_ret == 0, g.on_start_calls == V_OLD(g.on_start_calls) + (g_mod->hook.on_start != NULL ? 1 : 0)))                                                                                 /*@C01.start-callback-exactly-once*/
V_ENSURES(V_IMP(starting && g_ips_ret == 0 && g_ms_ret == 0 && g.reset_calls == V_OLD(g.reset_calls) && V_RET == 0, g.sys_started == V_OLD(g.sys_started) + 1 && __CPROVER_pointer_equals(g.sys_sender, g_mod)))  /*@C19.one-started-notification-per-start*/
V_ENSURES(V_IMP(starting && g_ips_ret == 0 && g_ms_ret == 0 && g.reset_calls == V_OLD(g.reset_calls) + 1, V_RET == 0 && g.sys_started == V_OLD(g.sys_started)
                && g.on_stop_calls == V_OLD(g.on_stop_calls) + (g_mod->hook.on_stop != NULL ? 1 : 0)))   /*@C01.refusing-start-callback-stops-the-module*/
V_ENSURES(V_IMP(starting && g_ips_ret == 0 && g_ms_ret == 0 && V_RET == -ENOENT, g_mod->state == M_MOD_ZOMBIE && g.sys_started == V_OLD(g.sys_started)))
;

/* ---- deregistration -------------------------------------------------------------------------------------------------- */
#define V_G_DEREG(mod)   ((mod) != NULL && *(mod) == g_mod && g_mod != NULL && !(g_mod->state & M_MOD_ZOMBIE) && g_mod->ctx == g_mctx \
                          && !((g_mod->flags & M_MOD_PERSIST) && g_ctx->state == M_CTX_LOOPING))
/* the same guard over the ENTRY state, for postconditions */
#define V_G_DEREG_OLD(mod) ((mod) != NULL && g_modref_in == g_mod && !(V_OLD(g_mod->state) & M_MOD_ZOMBIE) && g_mod->ctx == g_mctx \
                            && !((g_mod->flags & M_MOD_PERSIST) && g_ctx->state == M_CTX_LOOPING))
V_CONTRACT
int mod_deregister(m_mod_t **mod, bool from_user)
V_REQUIRES(v_base_ok() && (mod == NULL || (mod == &g_modref && (g_modref == NULL || g_modref == g_mod))) && g_modref_in == g_modref && V_MOD_OK && V_INV && (g_ctx->curr_mod == NULL || g_ctx->curr_mod == g_mod))
V_REQUIRES(g_ctx->modules == g_modules && v_map_ok_fn(g_modules) && g_modules->len >= 1 && g_mod->name != NULL && g_ms_ret == 0)
V_ASSIGNS(V_G_DEREG(mod): V_STOP_FRAME, g.maprm_calls, g_modules->len, g.fscleanup_calls,
          g.unrefp_calls, g_modref, g.ctxdereg_calls)
/* refused without any effect: no module, zombie, foreign thread, persistent module while its context loops */
V_ENSURES(V_IMP(!V_G_DEREG_OLD(mod), V_RET < 0))                                                                                                 /*@C01.deregister-refused-without-effect*/
V_ENSURES(V_IMP(mod != NULL && g_modref_in != NULL && !(V_OLD(g_mod->state) & M_MOD_ZOMBIE) && g_mod->ctx == g_mctx
                && (g_mod->flags & M_MOD_PERSIST) && g_ctx->state == M_CTX_LOOPING, V_RET == -EPERM))                                        /*@C15.persistent-module-not-deregistered-while-looping*/
V_ENSURES(V_IMP(mod != NULL && g_modref_in != NULL && !(V_OLD(g_mod->state) & M_MOD_ZOMBIE) && g_mod->ctx != g_mctx, V_RET == -EPERM))        /*@C14.foreign-thread-refused*/
/* the module is pinned for the duration, the pin is dropped */
/* (the stop callback that runs inside takes and drops its own pin: counted as a balance, not as a fixed number) */
V_ENSURES(V_IMP(V_G_DEREG_OLD(mod), g.ref_calls - V_OLD(g.ref_calls) == g.unref_calls - V_OLD(g.unref_calls) && g.unref_arg == (void *)g_mod))  /*@C04.module-pinned-during-deregistration*/
V_ENSURES(V_IMP(V_G_DEREG_OLD(mod) && g_maprm_ret != 0, V_RET == g_maprm_ret && g_mod->state == V_OLD(g_mod->state) && g.reset_calls == V_OLD(g.reset_calls)))
/* any state -> ZOMBIE (final), stopped through stop(): stop callback exactly once, one MOD_STOPPED notification */
V_ENSURES(V_IMP(V_G_DEREG_OLD(mod) && g_maprm_ret == 0, g_mod->state == M_MOD_ZOMBIE && V_INV
                && g.reset_calls == V_OLD(g.reset_calls) + 1 && g.on_stop_calls == V_OLD(g.on_stop_calls) + (g_mod->hook.on_stop != NULL ? 1 : 0)))     /*@C01.deregistration-stops-then-zombie*/
V_ENSURES(V_IMP(V_G_DEREG_OLD(mod) && g_maprm_ret == 0, g.sys_stopped == V_OLD(g.sys_stopped) + 1 && g.sys_started == V_OLD(g.sys_started)))      /*@C19.one-stopped-notification-per-deregistration*/
V_ENSURES(V_IMP(V_G_DEREG_OLD(mod) && g_maprm_ret == 0, g_modules->len == V_OLD(g_modules->len) - 1 && (from_user ? (g_modref == NULL && g.unrefp_calls == V_OLD(g.unrefp_calls) + 1)
                                                                                                               : (g_modref == g_modref_in && g.unrefp_calls == V_OLD(g.unrefp_calls)))))  /*@C04.user-reference-dropped-iff-user-call*/
/* a non-persistent idle context is released when its last module goes; never while looping, never if persistent */
V_ENSURES(V_IMP(V_G_DEREG_OLD(mod) && g_maprm_ret == 0,
                g.ctxdereg_calls == V_OLD(g.ctxdereg_calls) + ((g_ctx->state == M_CTX_IDLE && g_modules->len == 0 && !(g_ctx->flags & M_CTX_PERSIST)) ? 1 : 0)))  /*@C07.context-auto-released-with-last-module*/
V_ENSURES(V_IMP(!V_G_DEREG_OLD(mod) || g_maprm_ret != 0, g.ctxdereg_calls == V_OLD(g.ctxdereg_calls)))
;

/* ---- evaluation pass -------------------------------------------------------------------------------------------------- */
V_CONTRACT
int evaluate_module(void *data, const char *key, void *value)
V_REQUIRES(v_base_ok() && value == (void *)g_mod && V_MOD_OK && V_INV && (g_ctx->curr_mod == NULL || g_ctx->curr_mod == g_mod) && g_mod->state != M_MOD_ZOMBIE)
V_REQUIRES(g_mod->srcs[M_SRC_TYPE_THRESH] == g_thresh && g_thresh != NULL && V_R_OK(g_thresh, sizeof(struct _bst)) && g_thresh->len == 0)
V_ASSIGNS(V_STOP_FRAME, g.fetch_calls)
V_ENSURES(V_MOD_OK && V_INV)                                                                                                                /*@C01.running-count-equals-running-modules*/
/* only IDLE modules are evaluated; absent or true evaluation => started (start callback etc. through start()) */
V_ENSURES(V_IMP(V_OLD(g_mod->state) != M_MOD_IDLE, V_RET == 0 && g.on_eval_calls == V_OLD(g.on_eval_calls) && g.ips_calls == V_OLD(g.ips_calls) && g_mod->state == V_OLD(g_mod->state)))  /*@C01.only-idle-modules-are-evaluated*/
V_ENSURES(V_IMP(V_OLD(g_mod->state) == M_MOD_IDLE, g.on_eval_calls == V_OLD(g.on_eval_calls) + (g_mod->hook.on_eval != NULL ? 1 : 0)))
V_ENSURES(V_IMP(V_OLD(g_mod->state) == M_MOD_IDLE && g_mod->hook.on_eval == NULL && g_mod->state != M_MOD_ZOMBIE, g.ips_calls == V_OLD(g.ips_calls) + 1))  /*@C01.idle-module-without-eval-callback-is-started*/
/* the result never stops the pass over the other modules, except when this module was deregistered inside its callback
 * (the table changed; the next pass picks the others up) */
V_ENSURES(V_RET == 0 || (V_RET == -ENOENT && g_mod->state == M_MOD_ZOMBIE))                                                                 /*@C01.evaluation-result-does-not-hide-other-modules*/
;

/* ---- public state setters: guard, token, then exactly one transition through start()/stop() ---------------------------- */
#define V_G_SET(mod, allowed)   (V_G_MOD(mod) && ((mod)->state & (allowed)) != 0)
#define V_SETREQ(mod)  (v_base_ok() && ((mod) == NULL || ((mod) == g_mod && V_MOD_OK && V_INV && (g_ctx->curr_mod == NULL || g_ctx->curr_mod == g_mod) \
                        && g_mod->bound_mods == g_bound && g_bound != NULL && V_R_OK(g_bound, sizeof(struct _list)) && g_bound->len == 0)))
#define V_SET_FRAME    V_STOP_FRAME, g.fetch_calls

#define V_G_SET_OLD(mod, allowed)   ((mod) != NULL && !(V_OLD(g_mod->state) & M_MOD_ZOMBIE) && g_mod->ctx == g_mctx && (V_OLD(g_mod->state) & (allowed)) != 0)
#define V_SETTER_COMMON(allowed) \
V_ENSURES(V_IMP(!(V_G_SET_OLD(mod, allowed) && V_OLD(g_mod->tb.tokens) > 0), V_RET < 0)) \
V_ENSURES(V_IMP(V_G_SET_OLD(mod, allowed) && V_OLD(g_mod->tb.tokens) == 0, V_RET == -EAGAIN)) \
V_ENSURES(V_IMP(mod != NULL && !(V_OLD(g_mod->state) & M_MOD_ZOMBIE) && g_mod->ctx != g_mctx, V_RET == -EPERM)) \
V_ENSURES(V_IMP(mod != NULL && (V_OLD(g_mod->state) & M_MOD_ZOMBIE), V_RET == -EACCES))

V_CONTRACT
int m_mod_start(m_mod_t *mod)
V_REQUIRES(V_SETREQ(mod))
V_ASSIGNS(V_G_SET(mod, M_MOD_IDLE | M_MOD_STOPPED) && g_mod->tb.tokens > 0: V_SET_FRAME)
/* a state-changing call made in any other state (or on a zombie, or from a foreign thread, or without a token) returns a negative
 * code and -- by the conditional frame above -- changes nothing */
V_SETTER_COMMON(M_MOD_IDLE | M_MOD_STOPPED)                                                                                                 /*@C01.illegal-state-change-refused-without-effect*/
V_ENSURES(V_IMP(V_OLD(g_mod->tb.tokens) > 0 && mod != NULL && !(V_OLD(g_mod->state) & M_MOD_ZOMBIE) && g_mod->ctx == g_mctx
                && (V_OLD(g_mod->state) & (M_MOD_IDLE | M_MOD_STOPPED)), g.ips_calls == V_OLD(g.ips_calls) + 1 && g.ms_calls >= V_OLD(g.ms_calls) + (g_ips_ret == 0 ? 1 : 0)))  /*@C01.start-is-one-start-transition*/
;
V_CONTRACT
int m_mod_pause(m_mod_t *mod)
V_REQUIRES(V_SETREQ(mod))
V_ASSIGNS(V_G_SET(mod, M_MOD_RUNNING) && g_mod->tb.tokens > 0: V_SET_FRAME)
V_SETTER_COMMON(M_MOD_RUNNING)                                                                                                               /*@C01.illegal-state-change-refused-without-effect*/
V_ENSURES(V_IMP(V_OLD(g_mod->tb.tokens) > 0 && mod != NULL && g_mod->ctx == g_mctx && V_OLD(g_mod->state) == M_MOD_RUNNING,
                g.ms_calls == V_OLD(g.ms_calls) + 1 && g.ms_flag == RM && !g.ms_stop && g.reset_calls == V_OLD(g.reset_calls)
                && V_IMP(g_ms_ret == 0, V_RET == 0 && g_mod->state == M_MOD_PAUSED)))                                                        /*@C01.pause-is-one-pause-transition*/
;
V_CONTRACT
int m_mod_resume(m_mod_t *mod)
V_REQUIRES(V_SETREQ(mod))
V_ASSIGNS(V_G_SET(mod, M_MOD_PAUSED) && g_mod->tb.tokens > 0: V_SET_FRAME)
V_SETTER_COMMON(M_MOD_PAUSED)                                                                                                                /*@C01.illegal-state-change-refused-without-effect*/
V_ENSURES(V_IMP(V_OLD(g_mod->tb.tokens) > 0 && mod != NULL && g_mod->ctx == g_mctx && V_OLD(g_mod->state) == M_MOD_PAUSED,
                g.ips_calls == V_OLD(g.ips_calls) && g.ms_calls == V_OLD(g.ms_calls) + 1 && g.ms_flag == ADD
                && V_IMP(g_ms_ret == 0, V_RET == 0 && g_mod->state == M_MOD_RUNNING)))                                                       /*@C01.resume-is-one-resume-transition*/
;
V_CONTRACT
int m_mod_stop(m_mod_t *mod)
V_REQUIRES(V_SETREQ(mod))
V_ASSIGNS(V_G_SET(mod, M_MOD_RUNNING | M_MOD_PAUSED) && g_mod->tb.tokens > 0: V_SET_FRAME)
V_SETTER_COMMON(M_MOD_RUNNING | M_MOD_PAUSED)                                                                                                /*@C01.illegal-state-change-refused-without-effect*/
V_ENSURES(V_IMP(V_OLD(g_mod->tb.tokens) > 0 && mod != NULL && g_mod->ctx == g_mctx && (V_OLD(g_mod->state) & (M_MOD_RUNNING | M_MOD_PAUSED)),
                g.ms_calls == V_OLD(g.ms_calls) + 1 && g.ms_flag == RM && g.ms_stop
                && V_IMP(g_ms_ret == 0, g.reset_calls == V_OLD(g.reset_calls) + 1 && (g_mod->state == M_MOD_STOPPED || g_mod->state == M_MOD_ZOMBIE))))  /*@C01.stop-is-one-stop-transition*/
;

/* ---- token bucket / batch timeout setters: replace the internal timer --------------------------------------------------------------- */
V_CONTRACT
int m_mod_src_deregister_tmr(m_mod_t *mod, const m_src_tmr_t *its)
V_REQUIRES(mod == g_mod && its != NULL)
V_ASSIGNS(g.deregtmr_calls, g.deregtmr_arg, g.deregtmr_ns, g_mod->tb.tokens)
V_ENSURES(g.deregtmr_calls == V_OLD(g.deregtmr_calls) + 1 && __CPROVER_pointer_equals(g.deregtmr_arg, its) && g.deregtmr_ns == its->ns && g_mod->tb.tokens <= V_OLD(g_mod->tb.tokens))
;
V_CONTRACT
int m_mod_src_register_tmr(m_mod_t *mod, const m_src_tmr_t *its, m_src_flags flags, const void *userptr)
V_REQUIRES(mod == g_mod && its != NULL)
V_ASSIGNS(g.regtmr_calls, g.regtmr_arg, g.regtmr_flags, g.regtmr_up, g.regtmr_ns, g_mod->tb.tokens)
V_ENSURES(V_RET == g_regtmr_ret && g.regtmr_calls == V_OLD(g.regtmr_calls) + 1 && __CPROVER_pointer_equals(g.regtmr_arg, its) && g.regtmr_flags == flags && __CPROVER_pointer_equals(g.regtmr_up, userptr) && g.regtmr_ns == its->ns
          && g_mod->tb.tokens <= V_OLD(g_mod->tb.tokens))
;
#ifdef V_TB_UNIT
V_CONTRACT
int m_mod_set_tokenbucket(m_mod_t *mod, uint32_t rate, uint64_t burst)
V_REQUIRES(v_base_ok() && (mod == NULL || (mod == g_mod && V_RW_OK(g_mod, sizeof(m_mod_t)) && v_state_valid(g_mod->state))))
V_ASSIGNS(V_G_MOD(mod) && rate <= BILLION: g.deregtmr_calls, g.deregtmr_arg, g.deregtmr_ns, g.regtmr_calls, g.regtmr_arg, g.regtmr_flags, g.regtmr_up, g.regtmr_ns,
          g_mod->tb.rate, g_mod->tb.burst, g_mod->tb.tokens, g_mod->tb.timer)
V_ENSURES(V_IMP(!(mod != NULL && !(V_OLD(g_mod->state) & M_MOD_ZOMBIE) && g_mod->ctx == g_mctx) || rate > BILLION, V_RET < 0))                  /*@C18.bad-rate-or-refused-call-changes-nothing*/
/* a previously configured refill timer is removed (looked up by its old period) before anything is overwritten */
V_ENSURES(V_IMP(V_G_MOD(mod) && rate <= BILLION, g.deregtmr_calls == V_OLD(g.deregtmr_calls) + (V_OLD(g_mod->tb.timer.ns) != 0 ? 1 : 0)
                && V_IMP(V_OLD(g_mod->tb.timer.ns) != 0, __CPROVER_pointer_equals(g.deregtmr_arg, &g_mod->tb.timer) && g.deregtmr_ns == V_OLD(g_mod->tb.timer.ns))))                    /*@C18.old-refill-timer-removed-on-reconfiguration*/
/* rate 0 removes the limit */
V_ENSURES(V_IMP(V_G_MOD(mod) && rate == 0, V_RET == 0 && g_mod->tb.rate == 0 && g_mod->tb.tokens == UINT64_MAX && g_mod->tb.burst == UINT64_MAX && g_mod->tb.timer.ns == 0
                && g.regtmr_calls == V_OLD(g.regtmr_calls)))                                                                               /*@C18.rate-zero-removes-the-limit*/
/* otherwise: bucket full (tokens == burst), one refill tick every period in [1, 10^9] ns (the code computes floor(10^9 / rate); the exact quotient is not
 * restated here: two symbolic dividers in one formula did not finish), delivered through an internal high-priority timer keyed by the bucket */
V_ENSURES(V_IMP(V_G_MOD(mod) && rate > 0 && rate <= BILLION, g_mod->tb.rate == (uint16_t)rate && g_mod->tb.burst == burst && g_mod->tb.tokens <= burst
                && g_mod->tb.timer.ns >= 1 && g_mod->tb.timer.ns <= BILLION && g_mod->tb.timer.clock_id == CLOCK_MONOTONIC
                && g.regtmr_calls == V_OLD(g.regtmr_calls) + 1 && __CPROVER_pointer_equals(g.regtmr_arg, &g_mod->tb.timer) && __CPROVER_pointer_equals(g.regtmr_up, (const void *)&g_mod->tb
               ) && (g.regtmr_flags & M_SRC_INTERNAL) && (g.regtmr_flags & M_SRC_PRIO_HIGH) && g.regtmr_ns == g_mod->tb.timer.ns && V_RET == g_regtmr_ret))  /*@C18.bucket-armed-with-burst-and-refill-period*/
;
#endif
