/* Contracts for Lib/core/ps.c. */

V_CONTRACT
int fs_notify(m_mod_t *mod, const m_queue_t *const evts)
V_REQUIRES(1)
V_ASSIGNS()
V_ENSURES(1)
;

V_CONTRACT
void call_pubsub_cb(m_mod_t *mod, m_queue_t *evts)
V_REQUIRES(v_base_ok() && mod == g_mod && V_RW_OK(g_mod, sizeof(m_mod_t)) && g_mod->ctx == g_ctx && V_RW_OK(g_ctx, sizeof(m_ctx_t)))
V_REQUIRES(evts == g_evq && V_Q_OK(g_evq) && g_mod->recvs == g_recvs && V_S_OK(g_recvs) && (g_recvs->len == 0) == (g_recvs->top == NULL))
V_REQUIRES(g_mod->hook.on_evt == v_on_evt && (g_recvs->top == NULL || g_recvs->top == (void *)v_become_evt))
V_REQUIRES(g_mod->stats.recv_msgs < ((uint64_t)1 << 62) && (g_ctx->curr_mod == NULL || g_ctx->curr_mod == g_mod))
V_ASSIGNS(g, V_CB_FRAME, g_ctx->curr_mod, g_mod->stats.recv_msgs)
V_FREES(g_evq)
/* nothing to deliver: the handler is not called */
V_ENSURES(V_IMP(V_OLD(g_evq->len) == 0, g.evt_cb_calls == V_OLD(g.evt_cb_calls) && g.ref_calls == V_OLD(g.ref_calls)))                      /*@C17.no-invocation-for-empty-batch*/
/* exactly one invocation, of the handler that was on top of the become-stack WHEN THE DELIVERY STARTED (a change made
 * inside the handler only affects the next delivery), else the registration-time handler; with this module and these events */
V_ENSURES(V_IMP(V_OLD(g_evq->len) > 0, g.evt_cb_calls == V_OLD(g.evt_cb_calls) + 1 && g.evt_cb_mod == g_mod && g.evt_cb_q == g_evq
                && g.evt_cb_which == (V_OLD(g_recvs->len) > 0 ? 1 : 0)))                                                                     /*@C17.most-recent-handler-else-original*/
/* the module is pinned while user code runs, the pin is dropped afterwards (balanced) */
V_ENSURES(V_IMP(V_OLD(g_evq->len) > 0, g.ref_calls == V_OLD(g.ref_calls) + 1 && g.ref_arg == (void *)g_mod
                && g.unref_calls == V_OLD(g.unref_calls) + 1 && g.unref_arg == (void *)g_mod))                                               /*@C04.module-pinned-during-callback*/
V_ENSURES(g_ctx->curr_mod == V_OLD(g_ctx->curr_mod))                                                                                        /*@C15.current-module-restored-after-nested-callback*/
V_ENSURES(V_IMP(V_OLD(g_evq->len) > 0, g_mod->stats.recv_msgs == V_OLD(g_mod->stats.recv_msgs) + V_OLD(g_evq->len)))                         /*@C02.received-counter-exact*/
/* the delivered batch is released exactly once, after the handler returned */
V_ENSURES(g.qfree_calls == V_OLD(g.qfree_calls) + 1 && g.qfree_arg == g_evq)                                                                /*@C04.batch-released-exactly-once*/
;
