/* Contracts for Lib/core/ps.c. */

V_CONTRACT
int fs_notify(m_mod_t *mod, const m_queue_t *const evts)
V_REQUIRES(1)
V_ASSIGNS()
V_ENSURES(1)
;

#ifndef V_FLUSH_UNIT   /* the version call_pubsub_cb() is PROVED against (unit ps.call_pubsub_cb) */
V_CONTRACT
void call_pubsub_cb(m_mod_t *mod, m_queue_t *evts)
V_REQUIRES(v_base_ok() && mod == g_mod && V_RW_OK(g_mod, sizeof(m_mod_t)) && g_mod->ctx == g_ctx && V_RW_OK(g_ctx, sizeof(m_ctx_t)))
V_REQUIRES(evts == g_evq && V_Q_OK(g_evq) && g_mod->recvs == g_recvs && V_S_OK(g_recvs) && (g_recvs->len == 0) == (g_recvs->top == NULL))
V_REQUIRES(g_mod->hook.on_evt == v_on_evt && (g_recvs->top == NULL || g_recvs->top == (void *)v_become_evt))
V_REQUIRES(g_mod->stats.recv_msgs < ((uint64_t)1 << 62) && (g_ctx->curr_mod == NULL || g_ctx->curr_mod == g_mod))
V_ASSIGNS(g, V_CB_FRAME, g_ctx->curr_mod, g_mod->stats.recv_msgs)
V_FREES(g_evq)
/* nothing to deliver: the handler is not called */
V_ENSURES(V_IMP(V_OLD(g_evq->len) == 0, g.evt_cb_calls == V_OLD(g.evt_cb_calls) && g.ref_calls == V_OLD(g.ref_calls)))                      /*@C17.no-invocation-for-empty-batch*/
/* exactly one invocation, of the handler that was on top of the become-stack WHEN THE DELIVERY STARTED (a change made
 * inside the handler only affects the next delivery), else the registration-time handler; with this module and these events */
V_ENSURES(V_IMP(V_OLD(g_evq->len) > 0, g.evt_cb_calls == V_OLD(g.evt_cb_calls) + 1 && __CPROVER_pointer_equals(g.evt_cb_mod, g_mod) && __CPROVER_pointer_equals(g.evt_cb_q, g_evq
               ) && g.evt_cb_which == (V_OLD(g_recvs->len) > 0 ? 1 : 0)))                                                                     /*@C17.most-recent-handler-else-original*/
/* the module is pinned while user code runs, the pin is dropped afterwards (balanced) */
V_ENSURES(V_IMP(V_OLD(g_evq->len) > 0, g.ref_calls == V_OLD(g.ref_calls) + 1 && __CPROVER_pointer_equals(g.ref_arg, (void *)g_mod
               ) && g.unref_calls == V_OLD(g.unref_calls) + 1 && __CPROVER_pointer_equals(g.unref_arg, (void *)g_mod)))                                               /*@C04.module-pinned-during-callback*/
V_ENSURES(g_ctx->curr_mod == V_OLD(g_ctx->curr_mod))                                                                                        /*@C15.current-module-restored-after-nested-callback*/
V_ENSURES(V_IMP(V_OLD(g_evq->len) > 0, g_mod->stats.recv_msgs == V_OLD(g_mod->stats.recv_msgs) + V_OLD(g_evq->len)))                         /*@C02.received-counter-exact*/
/* the delivered batch is released exactly once, after the handler returned */
V_ENSURES(g.qfree_calls == V_OLD(g.qfree_calls) + 1 && __CPROVER_pointer_equals(g.qfree_arg, g_evq))                                                                /*@C04.batch-released-exactly-once*/
/* ... and while the module is still pinned: the events' sources point back to their module (not reference counted), and the handler may have deregistered it --
 * destroying them after the pin is dropped would run the source destructors on a module that is already gone */
V_ENSURES(V_IMP(V_OLD(g_evq->len) > 0, g.qfree_at_unref == V_OLD(g.unref_calls)))                                                             /*@C04.events-destroyed-while-their-module-is-still-pinned*/
;

#else                  /* as a callee of flush_pubsub_msgs(): only what the caller needs */
V_CONTRACT
void call_pubsub_cb(m_mod_t *mod, m_queue_t *evts)
V_REQUIRES(mod != NULL && V_Q_OK(evts))
V_ASSIGNS(g.cb_calls, g.cb_mod, g.cb_q, g.cb_qlen)
V_ENSURES(g.cb_calls == V_OLD(g.cb_calls) + 1 && __CPROVER_pointer_equals(g.cb_mod, mod) && __CPROVER_pointer_equals(g.cb_q, evts) && g.cb_qlen == evts->len)
;
#endif

/* ---- sending: one recipient (tell_if) ---------------------------------------------------------------------------------- */
V_CONTRACT
void *m_mem_new(size_t size, m_ref_dtor dtor)
V_REQUIRES(size == sizeof(ps_priv_t))      /* the only allocation in this unit: a message copy (constant size keeps the fresh object concrete) */
V_ASSIGNS(g.memnew_calls, g.memnew_ret)
V_ENSURES(g.memnew_calls == V_OLD(g.memnew_calls) + 1 && (g_alloc_fails ? V_RET == NULL : __CPROVER_is_fresh(V_RET, sizeof(ps_priv_t))) && __CPROVER_pointer_equals(g.memnew_ret, V_RET))
;
/* the recipient's message pipe: a write of one pointer either is accepted (appended at the tail of the ghost pipe) or fails (pipe full) */
V_CONTRACT
ssize_t v_write(int fd, const void *buf, size_t n)
V_REQUIRES(buf != NULL && n == sizeof(void *) && V_R_OK(buf, sizeof(void *)))
V_ASSIGNS(g.write_calls, g.write_fd, g.write_ptr, g.pipe_len, g_errno)
V_ENSURES(g.write_calls == V_OLD(g.write_calls) + 1 && g.write_fd == fd && __CPROVER_pointer_equals(g.write_ptr, *(void *const *)buf))
V_ENSURES(g_pipe_full ? (V_RET == -1 && g.pipe_len == V_OLD(g.pipe_len)) : (V_RET == (ssize_t)sizeof(void *) && g.pipe_len == V_OLD(g.pipe_len) + 1))
;

#define V_TELL_ELIGIBLE  ((g_mod->state & (M_MOD_RUNNING | M_MOD_PAUSED)) != 0 && (g_msg->msg.topic == NULL || key != NULL))
V_CONTRACT
static int tell_if(void *data, const char *key, void *value)
V_REQUIRES(v_base_ok() && data == (void *)g_msg && V_RW_OK(g_msg, sizeof(ps_priv_t)) && value == (void *)g_mod && V_RW_OK(g_mod, sizeof(m_mod_t)) && v_state_valid(g_mod->state))
V_REQUIRES(g_mod->name != NULL && g.pipe_len < ((size_t)1 << 60))
V_ASSIGNS(g.memnew_calls, g.memnew_ret, g.ref_calls, g.ref_arg, g.unref_calls, g.unref_arg, g.unref_arg_prev, g.write_calls, g.write_fd, g.write_ptr, g.pipe_len, g_errno)
V_ENSURES(V_RET == 0)
/* handed to exactly the eligible recipient, to nobody else: a module that is not RUNNING/PAUSED, or (for a publish) holds no matching
 * subscription, gets nothing -- no copy is even made */
V_ENSURES(V_IMP(!V_TELL_ELIGIBLE, g.memnew_calls == V_OLD(g.memnew_calls) && g.write_calls == V_OLD(g.write_calls) && g.pipe_len == V_OLD(g.pipe_len)
                && g.ref_calls == V_OLD(g.ref_calls)))                                                                                       /*@C02.non-eligible-module-gets-nothing*/
/* eligible: exactly one copy, at most once; it carries the sender, topic, payload pointer and flags the sender supplied and the
 * matched subscription; it keeps the sender alive; it is appended at the tail of the recipient's pipe */
V_ENSURES(V_IMP(V_TELL_ELIGIBLE, g.memnew_calls == V_OLD(g.memnew_calls) + 1))                                                             /*@C02.exactly-one-copy-per-eligible-recipient*/
V_ENSURES(V_IMP(V_TELL_ELIGIBLE && !g_alloc_fails, g.write_calls == V_OLD(g.write_calls) + 1 && g.write_fd == g_mod->pubsub_fd[1] && __CPROVER_pointer_equals(g.write_ptr, g.memnew_ret
               ) && g.pipe_len == V_OLD(g.pipe_len) + (g_pipe_full ? 0 : 1)))                                                                /*@C08.appended-at-the-tail-of-the-recipients-pipe*/
V_ENSURES(V_IMP(V_TELL_ELIGIBLE && !g_alloc_fails, g.ref_calls == V_OLD(g.ref_calls) + 1 && __CPROVER_pointer_equals(g.ref_arg, (void *)g_msg->msg.sender)))           /*@C04.in-flight-message-keeps-its-sender-alive*/
/* pipe full: the COPY is released exactly once; the caller's message object (which is not reference counted) is left alone */
V_ENSURES(V_IMP(V_TELL_ELIGIBLE && !g_alloc_fails && g_pipe_full, g.unref_calls == V_OLD(g.unref_calls) + 1 && __CPROVER_pointer_equals(g.unref_arg, g.memnew_ret)))  /*@C04.undeliverable-copy-released-not-the-callers-message*/
V_ENSURES(V_IMP(!(V_TELL_ELIGIBLE && !g_alloc_fails && g_pipe_full), g.unref_calls == V_OLD(g.unref_calls)))
;

/* ---- receiving side: draining the recipient's pipe (flush_pubsub_msgs) ------------------------------------------------- */
/* ghost pipe: g.pipe_len pointers pending; every one of them is (an alias of) the ghost message g_pmsg */
V_CONTRACT
ssize_t v_read(int fd, void *buf, size_t n)
V_REQUIRES(buf != NULL && n == sizeof(void *) && V_RW_OK(buf, sizeof(void *)) && fd == g_mod->pubsub_fd[0])                                  /*@C08.reads-the-recipients-own-pipe*/
V_ASSIGNS(g.read_calls, g.pipe_len, g_errno, *(ps_priv_t **)buf)
V_ENSURES(g.read_calls == V_OLD(g.read_calls) + 1)
V_ENSURES(V_OLD(g.pipe_len) > 0 ? (V_RET == (ssize_t)sizeof(void *) && g.pipe_len == V_OLD(g.pipe_len) - 1 && __CPROVER_pointer_equals(*(ps_priv_t **)buf, g_pmsg))
                                : (V_RET == -1 && g.pipe_len == 0))
;
V_CONTRACT
evt_priv_t *new_evt(ev_src_t *src)
V_REQUIRES(src == NULL || V_R_OK(src, sizeof(ev_src_t)))             /* a message sent by tell/broadcast has no subscription: src may be NULL */
V_ASSIGNS(g.newevt_calls, g.newevt_src)
V_ENSURES(__CPROVER_is_fresh(V_RET, sizeof(evt_priv_t)) && V_RET->src == src && V_RET->evt.fd_evt == NULL && g.newevt_calls == V_OLD(g.newevt_calls) + 1 && __CPROVER_pointer_equals(g.newevt_src, src))
;
V_CONTRACT
int fs_ctx_stopped(m_mod_t *mod)
V_REQUIRES(1)
V_ASSIGNS()
V_ENSURES(1)
;
/* (contract of call_pubsub_cb as a callee: see its enforced version above; here only the call is recorded) */

V_CONTRACT
int flush_pubsub_msgs(void *data, const char *key, void *value)
V_REQUIRES(v_base_ok() && value == (void *)g_mod && V_RW_OK(g_mod, sizeof(m_mod_t)) && v_state_valid(g_mod->state) && g_mod->name != NULL)
V_REQUIRES(g_pmsg != NULL && V_RW_OK(g_pmsg, sizeof(ps_priv_t)) && (g_pmsg->sub == NULL || V_R_OK(g_pmsg->sub, sizeof(ev_src_t))) && g.pipe_len < ((size_t)1 << 58))
V_REQUIRES(g_P0 == g.pipe_len && g_e0 == g.enq_calls && g_u0 == g.unref_calls && g_cb0 == g.cb_calls && g_mod->pubsub_fd[0] != -1)
V_ASSIGNS(g.read_calls, g.pipe_len, g_errno, g.qnew_calls, g.qnew_ret, g.newevt_calls, g.newevt_src, g.enq_calls, g.enq_arg, g.enq_q, g.unref_calls, g.unref_arg, g.unref_arg_prev,
          g.cb_calls, g.cb_mod, g.cb_q, g.cb_qlen)
V_ENSURES(V_RET == 0 && g.pipe_len == 0)                                                                                                    /*@C02.flush-drains-the-pipe*/
/* loop stop with the module RUNNING: every pending message is handed over (none released), in pipe order, in ONE handler invocation */
V_ENSURES(V_IMP(key != NULL && g_mod->state == M_MOD_RUNNING, g.enq_calls == g_e0 + g_P0 && g.unref_calls == g_u0
                && g.cb_calls == g_cb0 + 1 && __CPROVER_pointer_equals(g.cb_mod, g_mod) && __CPROVER_pointer_equals(g.cb_q, g.qnew_ret) && g.cb_qlen == g_P0))                                /*@C02.pending-messages-delivered-at-loop-stop-in-one-invocation*/
/* module stopping, or not RUNNING when the loop ends: every pending message is discarded, each released exactly once, none delivered */
V_ENSURES(V_IMP(key == NULL || g_mod->state != M_MOD_RUNNING, g.unref_calls == g_u0 + g_P0 && g.enq_calls == g_e0 && g.cb_qlen == 0))         /*@C02.discarded-when-recipient-stops-or-is-not-running*/ /*@C01.no-handler-for-a-module-that-is-not-running*/
;
