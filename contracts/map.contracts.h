/* Contracts for Lib/structs/map.c (property C05; safety obligations also count for C04).
 * Unbounded, modular part: hashmap_put() and m_map_put() are loop-free; they are verified for tables of ANY size against
 * the contracts of their callees hashmap_entry_find() and hashmap_rehash() (which are checked as bounded stand-ins in the
 * mb.* units).  Ghost state:
 *   g_m        the map                     g_found1 / g_found2  results of the 1st / 2nd hashmap_entry_find() call
 *   g_find_calls                           g_rehash_ret[2], g_rehash_calls   outcomes of the (up to two) rehash attempts
 *   g_fd       never-NULL alias of the entry that finally receives the key (for V_OLD) */

static inline bool v_keyeq(const char *a, const char *b) { return a != NULL && b != NULL && a[0] == b[0]; }   /* 2-byte keys {id,0} */

static inline bool v_map_ok(void) {
    return g_m != NULL && V_RW_OK(g_m, sizeof(m_map_t)) && (g_m->dtor == NULL || g_m->dtor == v_val_dtor)
        && g_m->length < ((size_t)1 << 60) && g_m->table_size >= 2 && g_m->table_size <= ((size_t)1 << 42);
}
static inline bool v_entry_ok(map_elem *e) { return e == NULL || V_RW_OK(e, sizeof(map_elem)); }

V_CONTRACT
static map_elem *hashmap_entry_find(const m_map_t *m, const char *key, bool find_empty)
V_REQUIRES(m == g_m && v_map_ok() && key != NULL && g_find_calls < 2)
V_ASSIGNS(g_find_calls)
/* NULL, or an entry of the table that is empty (only if find_empty) or holds an equal key */
V_ENSURES(g_find_calls == V_OLD(g_find_calls) + 1)
V_ENSURES(V_RET == (V_OLD(g_find_calls) == 0 ? g_found1 : g_found2))
V_ENSURES(V_IMP(V_RET != NULL, V_RW_OK(V_RET, sizeof(map_elem)) && (V_RET->key == NULL ? find_empty : v_keyeq(V_RET->key, key))))
;

V_CONTRACT
static int hashmap_rehash(m_map_t *m)
V_REQUIRES(m == g_m && v_map_ok() && g_rehash_calls < 2)
V_ASSIGNS(g_rehash_calls, g_m->table, g_m->table_size)
V_ENSURES(g_rehash_calls == V_OLD(g_rehash_calls) + 1)
V_ENSURES(V_RET == g_rehash_ret[V_OLD(g_rehash_calls)] && (V_RET == 0 || V_RET == -ENOMEM))
V_ENSURES(V_IMP(V_RET != 0, g_m->table == V_OLD(g_m->table) && g_m->table_size == V_OLD(g_m->table_size)))
V_ENSURES(V_IMP(V_RET == 0, g_m->table_size == 2 * V_OLD(g_m->table_size)))
;

V_CONTRACT
static int hashmap_put(m_map_t *m, const char *key, void *value)
V_REQUIRES(v_base_ok() && m == g_m && v_map_ok() && g_find_calls == 0 && g_rehash_calls == 0)
V_REQUIRES(v_entry_ok(g_found1) && v_entry_ok(g_found2) && g_fd != NULL && V_RW_OK(g_fd, sizeof(map_elem)))
/* the entry that receives the key is the 1st find result, or the 2nd one if the 1st was NULL */
V_REQUIRES(g_fd == (g_found1 ? g_found1 : (g_found2 ? g_found2 : &g_dummy_entry)))
V_REQUIRES(V_IMP(g_found1 != NULL && g_found1->key != NULL && key != NULL, v_keyeq(g_found1->key, key)))
V_REQUIRES(V_IMP(g_found2 != NULL && g_found2->key != NULL && key != NULL, v_keyeq(g_found2->key, key)))
V_ASSIGNS(g_find_calls, g_rehash_calls, g_m->table, g_m->table_size, g_m->length, g_fd->key, g_fd->data, g_dtor_calls, g_dtor_arg)
V_ENSURES(V_IMP(key == NULL, V_RET == -EINVAL && g_find_calls == 0 && g_rehash_calls == 0 && g_m->length == V_OLD(g_m->length)))   /*@C05.put-rejects-null-key*/
/* failure leaves no trace in the entries: no key stored, no value replaced, no destructor run, length unchanged */
V_ENSURES(V_IMP(V_RET != 0, g_fd->key == V_OLD(g_fd->key) && g_fd->data == V_OLD(g_fd->data) && g_m->length == V_OLD(g_m->length)
                && g_dtor_calls == V_OLD(g_dtor_calls)))                                                                              /*@C05.put-fails-without-effect*/
V_ENSURES(V_IMP(V_RET != 0, V_RET == -EINVAL || V_RET == -ENOMEM || V_RET == -EPERM))
/* refused update: only when the key exists and updates are not allowed */
V_ENSURES(V_IMP(key != NULL, (V_RET == -EPERM) == (g_find_calls >= 1 && g_fd != &g_dummy_entry && V_OLD(g_fd->key) != NULL
                && !(g_m->flags & M_MAP_VAL_ALLOW_UPDATE) && (g_found1 != NULL || g_find_calls == 2))))                               /*@C05.put-updates-only-if-allowed*/
/* new key: stored in the slot found, length + 1, no destructor */
V_ENSURES(V_IMP(V_RET == 0 && V_OLD(g_fd->key) == NULL,
                g_fd->key == key && g_fd->data == value && g_m->length == V_OLD(g_m->length) + 1 && g_dtor_calls == V_OLD(g_dtor_calls)))  /*@C05.put-adds-new-key*/
/* existing key: value replaced in place, the STORED key pointer stays, length unchanged, old value destroyed exactly once iff
 * a destructor is set and the value really changes */
V_ENSURES(V_IMP(V_RET == 0 && V_OLD(g_fd->key) != NULL,
                g_fd->key == V_OLD(g_fd->key) && g_fd->data == value && g_m->length == V_OLD(g_m->length)
                && g_dtor_calls == V_OLD(g_dtor_calls) + ((g_m->dtor != NULL && V_OLD(g_fd->data) != value) ? 1 : 0)
                && V_IMP(g_m->dtor != NULL && V_OLD(g_fd->data) != value, g_dtor_arg == V_OLD(g_fd->data))))                        /*@C05.dtor-exactly-once-on-replaced-value*/
V_ENSURES(V_IMP(V_RET == 0, g_fd != &g_dummy_entry))
;
