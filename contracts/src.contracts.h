/* Contracts for the per-module source registry in Lib/core/src.c: register_mod_src, deregister_mod_src, create_src (C09, C13, C01, C18).
 * The per-kind set itself is the BST (C11 units); here it is the ghost record struct _bst {len, internal} plus the ghost answer
 * "is the key already present" (g_key_present) of this pre-state. */
V_CONTRACT
int m_bst_insert(m_bst_t *l, void *data)
V_REQUIRES(l == g_set && data != NULL)
V_ASSIGNS(g_set->len, g.bstins_calls, g.bstins_arg)
V_ENSURES(g.bstins_calls == V_OLD(g.bstins_calls) + 1 && __CPROVER_pointer_equals(g.bstins_arg, data) && V_RET == (g_key_present ? -EEXIST : g_bstins_ret)
          && g_set->len == V_OLD(g_set->len) + (V_RET == 0 ? 1 : 0))
;
#ifdef V_SRCREG_UNIT
/* (in the registration unit the only removal is that of the source which has just been inserted and could not be polled) */
V_CONTRACT
int m_bst_remove(m_bst_t *l, void *data)
V_REQUIRES(l == g_set && data != NULL && data == g.bstins_arg)
V_ASSIGNS(g_set->len, g.bstrm_calls)
V_ENSURES(V_RET == 0 && g.bstrm_calls == V_OLD(g.bstrm_calls) + 1 && g_set->len == V_OLD(g_set->len) - 1)
;
#else
V_CONTRACT
int m_bst_remove(m_bst_t *l, void *data)
V_REQUIRES(l == g_set && data != NULL && V_R_OK(data, sizeof(ev_src_t)))
V_ASSIGNS(g_set->len, g.bstrm_calls, g.bstrm_fd, g.bstrm_ns, g.bstrm_signo, g.bstrm_pid)
V_ENSURES(g.bstrm_calls == V_OLD(g.bstrm_calls) + 1 && V_RET == (g_key_present ? 0 : -ENOENT) && g_set->len == V_OLD(g_set->len) - (g_key_present ? 1 : 0)
          && g.bstrm_fd == ((ev_src_t *)data)->fd_src.fd && g.bstrm_ns == ((ev_src_t *)data)->tmr_src.its.ns && g.bstrm_signo == ((ev_src_t *)data)->sgn_src.sgs.signo
          && g.bstrm_pid == ((ev_src_t *)data)->pid_src.pid.pid)
;
#endif
V_CONTRACT
int poll_set_new_evt(poll_priv_t *priv, ev_src_t *tmp, const enum op_type flag)
V_REQUIRES(priv == &g_ctx->ppriv && tmp != NULL)
V_ASSIGNS(g.tick_poll_calls, g.tick_poll_flag, g.newevt_src, g_errno)
V_ENSURES(g.tick_poll_calls == V_OLD(g.tick_poll_calls) + 1 && g.tick_poll_flag == (int)flag && __CPROVER_pointer_equals(g.newevt_src, tmp) && V_RET == g_pollinit_ret && (V_RET == 0 || g_errno > 0) && g_errno < 4096 && g_errno >= 0)
;
V_CONTRACT
int start_task(m_ctx_t *c, ev_src_t *src)
V_REQUIRES(c == g_ctx && src != NULL)
V_ASSIGNS(g.starttask_calls, g_errno)
V_ENSURES(g.starttask_calls == V_OLD(g.starttask_calls) + 1 && V_RET == g_ips_ret && g_errno >= 0 && g_errno < 4096)
;
#ifndef V_CREATESRC_UNIT
/* create_src(): proved against its own contract in unit src.create; allocation failure is not modelled here */
V_CONTRACT
static ev_src_t *create_src(m_mod_t *mod, m_src_types type, process_cb proc, const void *src_data, m_src_flags flags, const void *userptr)
V_REQUIRES(type < M_SRC_TYPE_END && src_data != NULL)     /* (proc != NULL cannot be stated: under DFCC the address of a static function taken from a static table may compare equal to NULL -- tool artefact) */
V_ASSIGNS(g.createsrc_calls, g.createsrc_flags, g.createsrc_type, g.createsrc_up)
V_ENSURES(__CPROVER_is_fresh(V_RET, sizeof(ev_src_t)) && g.createsrc_calls == V_OLD(g.createsrc_calls) + 1 && g.createsrc_flags == flags && g.createsrc_type == (int)type
          && __CPROVER_pointer_equals(g.createsrc_up, userptr) && V_RET->type == type && __CPROVER_pointer_equals(V_RET->mod, mod))
;
#endif

#define V_PRIO(f)       ((f) & M_SRC_PRIO_MASK)
#define V_PRIO_ONE(f)   (V_PRIO(f) == M_SRC_PRIO_LOW || V_PRIO(f) == M_SRC_PRIO_NORM || V_PRIO(f) == M_SRC_PRIO_HIGH)
#define V_SRCMOD_OK     (v_base_ok() && mod == g_mod && V_RW_OK(g_mod, sizeof(m_mod_t)) && g_mod->ctx == g_ctx && V_RW_OK(g_ctx, sizeof(m_ctx_t)) && g_mctx == g_ctx && !(g_mod->state & M_MOD_ZOMBIE) \
                         && type >= M_SRC_TYPE_FD && type < M_SRC_TYPE_END && g_mod->srcs[type] == g_set && V_RW_OK(g_set, sizeof(struct _bst)) && g_set->len < ((size_t)1 << 60))

#ifdef V_SRCREG_UNIT
V_CONTRACT
int register_mod_src(m_mod_t *mod, m_src_types type, const void *src_data, m_src_flags flags, const void *userptr)
V_REQUIRES(V_SRCMOD_OK && src_data != NULL && V_R_OK(src_data, 32))
V_ASSIGNS(g_mod->tb.tokens, g_mod->stats.last_seen, g_mod->stats.action_ctr, g.fetch_calls, g_set->len, g.bstins_calls, g.bstins_arg, g.createsrc_calls, g.createsrc_flags, g.createsrc_type, g.createsrc_up,
          g.tick_poll_calls, g.tick_poll_flag, g.newevt_src, g_errno, g.starttask_calls, g.unref_calls, g.unref_arg, g.unref_arg_prev, g.bstrm_calls)
/* rate limit first: with no token left the call is refused and changes nothing */
V_ENSURES(V_IMP(V_OLD(g_mod->tb.tokens) == 0, V_RET == -EAGAIN && g.createsrc_calls == V_OLD(g.createsrc_calls) && g.bstins_calls == V_OLD(g.bstins_calls) && g_set->len == V_OLD(g_set->len)))   /*@C18.no-token-call-refused-with-EAGAIN*/
/* more than one priority requested: bad parameters, no trace in the set, nothing created */
V_ENSURES(V_IMP(V_OLD(g_mod->tb.tokens) > 0 && V_PRIO(flags) != 0 && !V_PRIO_ONE(flags),
                V_RET == -EINVAL && g.createsrc_calls == V_OLD(g.createsrc_calls) && g.bstins_calls == V_OLD(g.bstins_calls) && g_set->len == V_OLD(g_set->len) && g.tick_poll_calls == V_OLD(g.tick_poll_calls)))  /*@C09.registration-rejected-for-bad-parameters-leaves-no-trace*/
/* otherwise exactly one source is created, with exactly one priority: the requested one, or NORMAL when none was given; the user pointer travels with it */
V_ENSURES(V_IMP(V_OLD(g_mod->tb.tokens) > 0 && (V_PRIO(flags) == 0 || V_PRIO_ONE(flags)),
                g.createsrc_calls == V_OLD(g.createsrc_calls) + 1 && g.createsrc_type == (int)type && g.createsrc_up == userptr && V_PRIO_ONE(g.createsrc_flags)
                && V_PRIO(g.createsrc_flags) == (V_PRIO(flags) ? V_PRIO(flags) : M_SRC_PRIO_NORM) && (g.createsrc_flags & ~(M_SRC_PRIO_MASK)) == (flags & ~(M_SRC_PRIO_MASK))
                && g.bstins_calls == V_OLD(g.bstins_calls) + 1))                                                                                   /*@C13.every-source-has-exactly-one-priority-default-normal*/
/* keyed set: a key that is already present is refused with EEXIST -- the candidate source is released, the set and the poll set are untouched */
V_ENSURES(V_IMP(V_OLD(g_mod->tb.tokens) > 0 && (V_PRIO(flags) == 0 || V_PRIO_ONE(flags)) && g_key_present,
                V_RET == -EEXIST && g_set->len == V_OLD(g_set->len) && g.tick_poll_calls == V_OLD(g.tick_poll_calls) && g.starttask_calls == V_OLD(g.starttask_calls)
                && g.unref_calls == V_OLD(g.unref_calls) + 1 && g.unref_arg == g.bstins_arg))                                                      /*@C09.present-key-refused-with-EEXIST-without-effect*/
/* a new key joins the set; it is polled at once iff its module is RUNNING (sources of IDLE/PAUSED/STOPPED modules wait for start/resume) */
V_ENSURES(V_IMP(V_OLD(g_mod->tb.tokens) > 0 && (V_PRIO(flags) == 0 || V_PRIO_ONE(flags)) && !g_key_present && g_bstins_ret == 0,
                (V_RET == 0 ? g_set->len == V_OLD(g_set->len) + 1 : g_set->len == V_OLD(g_set->len)) && g.unref_calls == V_OLD(g.unref_calls)
                && g.tick_poll_calls == V_OLD(g.tick_poll_calls) + ((g_mod->state & M_MOD_RUNNING) ? 1 : 0)
                && V_IMP(g_mod->state & M_MOD_RUNNING, g.tick_poll_flag == ADD && g.newevt_src == g.bstins_arg)
                && V_IMP(!(g_mod->state & M_MOD_RUNNING), V_RET == 0 && g.starttask_calls == V_OLD(g.starttask_calls))
                && V_IMP((g_mod->state & M_MOD_RUNNING) && g_pollinit_ret == 0 && type != M_SRC_TYPE_TASK, V_RET == 0)))                            /*@C09.new-key-registered-and-polled-iff-running*/
/* ownership: once the set has accepted the candidate, the set's node owns the only reference -- the caller never drops it (a later refusal takes it out through the set, whose
 * destructor releases it); a candidate the set did not accept is dropped exactly once */
V_ENSURES(V_IMP(V_OLD(g_mod->tb.tokens) > 0 && (V_PRIO(flags) == 0 || V_PRIO_ONE(flags)) && !g_key_present && g_bstins_ret == 0, g.unref_calls == V_OLD(g.unref_calls)))  /*@C04.source-accepted-by-the-set-is-not-released-by-the-caller*/
/* a source that could not be handed to the poll plugin (or whose task could not be started) is refused AND taken out of the set again: a refused registration leaves no trace,
 * the same call can be repeated and the reported counts stay the sizes of the sets */
V_ENSURES(V_IMP(V_OLD(g_mod->tb.tokens) > 0 && (V_PRIO(flags) == 0 || V_PRIO_ONE(flags)) && !g_key_present && g_bstins_ret == 0 && (g_mod->state & M_MOD_RUNNING)
                && (g_pollinit_ret != 0 || (type == M_SRC_TYPE_TASK && g_ips_ret != 0)), V_RET < 0 && g_set->len == V_OLD(g_set->len)))                          /*@C09.refused-registration-leaves-no-trace*/
/* a task source of a RUNNING module is handed to the pool exactly once, and only after it was added to the poll set */
V_ENSURES(V_IMP(V_OLD(g_mod->tb.tokens) > 0 && (V_PRIO(flags) == 0 || V_PRIO_ONE(flags)) && !g_key_present && g_bstins_ret == 0,
                g.starttask_calls == V_OLD(g.starttask_calls) + (((g_mod->state & M_MOD_RUNNING) && g_pollinit_ret == 0 && type == M_SRC_TYPE_TASK) ? 1 : 0)))
V_ENSURES(V_IMP(V_OLD(g_mod->tb.tokens) > 0, g_mod->tb.tokens == V_OLD(g_mod->tb.tokens) - 1))                                                     /*@C18.one-token-per-accepted-call*/
V_ENSURES(V_RET <= 0)
;
#endif

#ifdef V_SRCDEREG_UNIT
V_CONTRACT
int deregister_mod_src(m_mod_t *mod, m_src_types type, void *src_data)
V_REQUIRES(V_SRCMOD_OK && src_data != NULL && V_R_OK(src_data, 32))
V_ASSIGNS(g_mod->tb.tokens, g_mod->stats.last_seen, g_mod->stats.action_ctr, g.fetch_calls, g_set->len, g.bstrm_calls, g.bstrm_fd, g.bstrm_ns, g.bstrm_signo, g.bstrm_pid)
V_ENSURES(V_IMP(V_OLD(g_mod->tb.tokens) == 0, V_RET == -EAGAIN && g.bstrm_calls == V_OLD(g.bstrm_calls) && g_set->len == V_OLD(g_set->len)))       /*@C18.no-token-call-refused-with-EAGAIN*/
/* keyed set: exactly one removal is attempted, in the set of that kind, with the caller's identifying value as the key */
V_ENSURES(V_IMP(V_OLD(g_mod->tb.tokens) > 0, g.bstrm_calls == V_OLD(g.bstrm_calls) + 1
                && V_IMP(type == M_SRC_TYPE_FD, g.bstrm_fd == *(const int *)src_data)
                && V_IMP(type == M_SRC_TYPE_TMR, g.bstrm_ns == ((const m_src_tmr_t *)src_data)->ns)
                && V_IMP(type == M_SRC_TYPE_SGN, g.bstrm_signo == ((const m_src_sgn_t *)src_data)->signo)
                && V_IMP(type == M_SRC_TYPE_PID, g.bstrm_pid == ((const m_src_pid_t *)src_data)->pid)))                                           /*@C09.removal-looks-up-exactly-the-callers-key*/
V_ENSURES(V_IMP(V_OLD(g_mod->tb.tokens) > 0 && g_key_present, V_RET == 0 && g_set->len == V_OLD(g_set->len) - 1))                                  /*@C09.present-key-removed*/
V_ENSURES(V_IMP(V_OLD(g_mod->tb.tokens) > 0 && !g_key_present, V_RET == -ENOENT && g_set->len == V_OLD(g_set->len)))                               /*@C09.absent-key-fails-without-effect*/
;
#endif

#ifdef V_CREATESRC_UNIT
V_CONTRACT
void *m_mem_new(size_t size, m_ref_dtor dtor)
V_REQUIRES(size == sizeof(ev_src_t))
V_ASSIGNS(g.memnew_calls)
V_ENSURES(__CPROVER_is_fresh(V_RET, sizeof(ev_src_t)) && g.memnew_calls == V_OLD(g.memnew_calls) + 1)
;
V_CONTRACT int v_dup(int fd) V_REQUIRES(1) V_ASSIGNS(g.fd_opened) V_ENSURES(g.fd_opened == V_OLD(g.fd_opened) + 1 && V_RET == g_newfd);
V_CONTRACT char *mem_strdup(const char *s) V_REQUIRES(s != NULL) V_ASSIGNS(g.strdup_calls) V_ENSURES(g.strdup_calls == V_OLD(g.strdup_calls) + 1 && __CPROVER_is_fresh(V_RET, 2));
V_CONTRACT
static ev_src_t *create_src(m_mod_t *mod, m_src_types type, process_cb proc, const void *src_data, m_src_flags flags, const void *userptr)
V_REQUIRES(v_base_ok() && type < M_SRC_TYPE_END && proc != NULL && src_data != NULL && V_R_OK(src_data, 32))
V_ASSIGNS(g.memnew_calls, g.fd_opened, g.strdup_calls)
V_ENSURES(V_RET != NULL && V_RW_OK(V_RET, sizeof(ev_src_t)) && V_RET->type == type && V_RET->mod == mod && V_RET->userptr == userptr && V_RET->process == proc && g.memnew_calls == V_OLD(g.memnew_calls) + 1)
/* the flags asked for are kept; on top of them: descriptor sources are always HIGH priority, task and threshold sources are always one-shot */
V_ENSURES((V_RET->flags & flags) == flags && V_IMP(type == M_SRC_TYPE_FD, (V_RET->flags & M_SRC_PRIO_HIGH) != 0))                                  /*@C13.descriptor-events-always-high-priority*/
V_ENSURES(V_IMP(type == M_SRC_TYPE_TASK || type == M_SRC_TYPE_THRESH, (V_RET->flags & M_SRC_ONESHOT) != 0))                                       /*@C03.task-and-threshold-sources-are-one-shot*/
V_ENSURES(V_IMP(type != M_SRC_TYPE_FD && type != M_SRC_TYPE_TASK && type != M_SRC_TYPE_THRESH && !(type == M_SRC_TYPE_PS && (flags & M_SRC_DUP)), V_RET->flags == flags))
/* the identifying value is copied into the source: it is the key the set compares */
V_ENSURES(V_IMP((type == M_SRC_TYPE_FD || type == M_SRC_TYPE_PS) && !(flags & M_SRC_DUP), V_RET->fd_src.fd == *(const int *)src_data))
V_ENSURES(V_IMP(type == M_SRC_TYPE_TMR, V_RET->tmr_src.its.ns == ((const m_src_tmr_t *)src_data)->ns && V_RET->tmr_src.its.clock_id == ((const m_src_tmr_t *)src_data)->clock_id))
V_ENSURES(V_IMP(type == M_SRC_TYPE_SGN, V_RET->sgn_src.sgs.signo == ((const m_src_sgn_t *)src_data)->signo))
V_ENSURES(V_IMP(type == M_SRC_TYPE_PID, V_RET->pid_src.pid.pid == ((const m_src_pid_t *)src_data)->pid))                                           /*@C09.source-carries-the-callers-identifying-value*/
/* a duplicated descriptor is owned by the library (auto-closed); nothing else opens a descriptor at creation time: library-made descriptors appear only when the source is polled */
V_ENSURES(g.fd_opened == V_OLD(g.fd_opened) + (((type == M_SRC_TYPE_FD || type == M_SRC_TYPE_PS) && (flags & M_SRC_DUP)) ? 1 : 0)
          && V_IMP((type == M_SRC_TYPE_FD || type == M_SRC_TYPE_PS) && (flags & M_SRC_DUP), (V_RET->flags & M_SRC_FD_AUTOCLOSE) != 0 && V_RET->fd_src.fd == g_newfd)
          && V_IMP(type > M_SRC_TYPE_FD, V_RET->fd_src.fd == -1))                                                                                 /*@C20.duplicated-descriptor-is-owned-and-auto-closed*/
;
#endif

#ifdef V_PROCPS_UNIT
/* process_ps(): receiving one pub/sub message.  Ghost pipe as in the flush unit: g.pipe_len pointers pending, the head one is g_pmsg. */
V_CONTRACT
ssize_t v_read(int fd, void *buf, size_t n)
V_REQUIRES(buf != NULL && n == sizeof(void *) && V_RW_OK(buf, sizeof(void *)) && fd == g_psrc->fd_src.fd)                                     /*@C08.reads-one-pointer-from-the-modules-own-pipe*/
V_ASSIGNS(g.read_calls, g.pipe_len, g_errno, *(ps_priv_t **)buf)
V_ENSURES(g.read_calls == V_OLD(g.read_calls) + 1)
V_ENSURES(V_OLD(g.pipe_len) > 0 ? (V_RET == (ssize_t)sizeof(void *) && g.pipe_len == V_OLD(g.pipe_len) - 1 && __CPROVER_pointer_equals(*(ps_priv_t **)buf, g_pmsg))
                                : (V_RET == -1 && g.pipe_len == 0 && g_errno > 0 && g_errno < 200))
;
V_CONTRACT
static ev_src_t *process_ps(ev_src_t *this, m_ctx_t *c, int idx, evt_priv_t *evt)
V_REQUIRES(v_base_ok() && this == g_psrc && V_RW_OK(g_psrc, sizeof(ev_src_t)) && evt != NULL && V_RW_OK(evt, sizeof(evt_priv_t)) && evt->src == g_psrc && evt->evt.ps_evt == NULL
           && g_pmsg != NULL && V_RW_OK(g_pmsg, sizeof(ps_priv_t)) && (g_pmsg->sub == NULL || V_R_OK(g_pmsg->sub, sizeof(ev_src_t))) && g.pipe_len < ((size_t)1 << 60))
V_ASSIGNS(g.read_calls, g.pipe_len, g_errno, evt->evt.ps_evt, evt->src, g.ref_calls, g.ref_arg, g.unref_calls, g.unref_arg, g.unref_arg_prev)
/* a pending message: exactly the head of the pipe is taken (one read), the event carries it, and the event's source becomes the subscription the message
 * was matched with (none for tell / broadcast / system-direct messages); reference balance: the pipe source's reference held by the event is given back,
 * one is taken on the subscription */
V_ENSURES(V_IMP(V_OLD(g.pipe_len) > 0, g.read_calls == V_OLD(g.read_calls) + 1 && g.pipe_len == V_OLD(g.pipe_len) - 1 && evt->evt.ps_evt == &g_pmsg->msg
                && evt->src == g_pmsg->sub && V_RET == g_pmsg->sub))                                                                         /*@C08.event-carries-the-message-at-the-head-of-the-pipe*/
V_ENSURES(V_IMP(V_OLD(g.pipe_len) > 0, g.unref_calls == V_OLD(g.unref_calls) + 1 && g.unref_arg == (void *)g_psrc && g.ref_calls == V_OLD(g.ref_calls) + 1 && g.ref_arg == (void *)g_pmsg->sub))  /*@C04.event-source-reference-moves-from-the-pipe-to-the-subscription*/
/* nothing to read: the event stays empty (the loop then discards it), nothing is referenced or released */
V_ENSURES(V_IMP(V_OLD(g.pipe_len) == 0, evt->evt.ps_evt == NULL && evt->src == g_psrc && V_RET == g_psrc && g.ref_calls == V_OLD(g.ref_calls) && g.unref_calls == V_OLD(g.unref_calls)))
;
#endif
