/* Contracts for Lib/structs/stack.c (property C12; safety obligations also count for C04).  Idiom B, same
 * conventions as queue.contracts.h.  Ghost window:  g_s the stack, g_top its first node (NULL iff empty),
 * g_slot the link the iterator sits on (&s->data or &g_P->prev), g_C == *g_slot, g_td/g_Cd never-NULL aliases. */
#define V_SLEN_MAX ((size_t)1 << 62)

static inline bool v_s_ok(void) {
    if (g_s == NULL || !V_RW_OK(g_s, sizeof(m_stack_t))) return false;
    if (g_s->dtor != NULL && g_s->dtor != v_elem_dtor) return false;
    if (g_s->len >= V_SLEN_MAX) return false;
    if (g_s->data != g_top) return false;
    if (g_td != (g_top ? g_top : &g_dummy_node)) return false;
    if (g_s->len == 0) return g_top == NULL;
    if (g_top == NULL || !V_RW_OK(g_top, sizeof(stack_elem)) || g_top->userptr == NULL) return false;
    if ((g_s->len == 1) != (g_top->prev == NULL)) return false;
    return true;
}
static inline bool v_sitr_ok(m_stack_itr_t *itr) {
    if (itr == NULL || !V_RW_OK(itr, sizeof(m_stack_itr_t))) return false;
    if (!v_s_ok() || itr->s != g_s || itr->elem != g_slot) return false;
    if (g_P == NULL) { if (g_slot != &g_s->data) return false; }
    else { if (!V_RW_OK(g_P, sizeof(stack_elem)) || g_slot != &g_P->prev || g_s->len < 1) return false; }
    if (*g_slot != g_C || g_Cd != (g_C ? g_C : &g_dummy_node)) return false;
    if (g_C != NULL) {
        if (!V_RW_OK(g_C, sizeof(stack_elem)) || g_C->userptr == NULL || g_C == g_P) return false;
        if (g_s->len < (g_P ? 2 : 1)) return false;
        if (g_P == NULL && g_C != g_top) return false;
    } else if (g_P == NULL && g_s->len != 0) return false;
    return true;
}

V_CONTRACT
m_stack_t *m_stack_new(m_stack_dtor fn)
V_REQUIRES(v_base_ok())
V_ASSIGNS(g_alloc_calls, g_last_alloc)
V_ENSURES(V_IMP(V_OLD(g_oom_mask) == 0, V_RET != NULL))                                                             /*@C12.new-succeeds*/
V_ENSURES(V_IMP(V_RET != NULL, V_RW_OK(V_RET, sizeof(m_stack_t)) && V_RET->len == 0 && V_RET->data == NULL && V_RET->dtor == fn))  /*@C12.new-is-empty*/
;

V_CONTRACT
ssize_t m_stack_len(const m_stack_t *s)
V_REQUIRES(v_base_ok())
V_REQUIRES(s == NULL || (s == g_s && v_s_ok()))
V_ASSIGNS()
V_ENSURES(V_RET == (s == NULL ? -EINVAL : (ssize_t)g_s->len))                                                       /*@C12.len-exact*/
;

V_CONTRACT
int m_stack_push(m_stack_t *s, void *data)
V_REQUIRES(v_base_ok())
V_REQUIRES(s == NULL || (s == g_s && v_s_ok()))
V_ASSIGNS(g_alloc_calls, g_last_alloc; s != NULL && data != NULL: g_s->len, g_s->data)
V_ENSURES(V_IMP(s == NULL || data == NULL, V_RET == -EINVAL))                                                       /*@C12.push-rejects-null*/
V_ENSURES(V_IMP(s != NULL && data != NULL && V_RET != 0, V_RET == -ENOMEM && g_s->len == V_OLD(g_s->len) && g_s->data == g_top))  /*@C12.push-failure-no-effect*/
V_ENSURES(V_IMP(s != NULL && data != NULL && V_OLD(g_oom_mask) == 0, V_RET == 0))                                   /*@C12.push-succeeds*/
V_ENSURES(V_IMP(s != NULL && data != NULL && V_RET == 0,
                g_s->len == V_OLD(g_s->len) + 1 && g_s->data != NULL && g_s->data == (stack_elem *)g_last_alloc && g_s->data != g_top
                && g_s->data->userptr == data && g_s->data->prev == g_top))                                          /*@C12.lifo-push-on-top*/
;

V_CONTRACT
void *m_stack_pop(m_stack_t *s)
V_REQUIRES(v_base_ok())
V_REQUIRES(s == NULL || (s == g_s && v_s_ok()))
V_ASSIGNS(g_free_calls, g_free_arg, g_free_arg0; s != NULL: g_s->len, g_s->data)
V_FREES(g_top)
V_ENSURES(V_IMP(s == NULL || V_OLD(g_s->len) == 0, V_RET == NULL && g_free_calls == V_OLD(g_free_calls)))           /*@C12.pop-empty*/
V_ENSURES(V_IMP(s != NULL && V_OLD(g_s->len) > 0,
                V_RET == V_OLD(g_td->userptr) && g_s->data == V_OLD(g_td->prev) && g_s->len == V_OLD(g_s->len) - 1
                && g_free_calls == V_OLD(g_free_calls) + 1 && g_free_arg == (void *)g_top
                && g_dtor_calls == V_OLD(g_dtor_calls)))                                                             /*@C12.lifo-pop-from-top*/
;

V_CONTRACT
void *m_stack_peek(const m_stack_t *s)
V_REQUIRES(v_base_ok())
V_REQUIRES(s == NULL || (s == g_s && v_s_ok()))
V_ASSIGNS()
V_ENSURES(V_RET == ((s == NULL || g_s->len == 0) ? NULL : g_top->userptr))                                          /*@C12.peek-is-newest*/
;

V_CONTRACT
int m_stack_remove(m_stack_t *s)
V_REQUIRES(v_base_ok())
V_REQUIRES(s == NULL || (s == g_s && v_s_ok()))
V_ASSIGNS(g_free_calls, g_free_arg, g_free_arg0, g_dtor_calls, g_dtor_arg; s != NULL: g_s->len, g_s->data)
V_FREES(g_top)
V_ENSURES(V_IMP(s == NULL || V_OLD(g_s->len) == 0, V_RET == -EINVAL && g_free_calls == V_OLD(g_free_calls) && g_dtor_calls == V_OLD(g_dtor_calls)))  /*@C12.remove-empty*/
V_ENSURES(V_IMP(s != NULL && V_OLD(g_s->len) > 0,
                V_RET == 0 && g_s->data == V_OLD(g_td->prev) && g_s->len == V_OLD(g_s->len) - 1
                && g_free_calls == V_OLD(g_free_calls) + 1 && g_free_arg == (void *)g_top))                          /*@C12.remove-drops-top*/
V_ENSURES(V_IMP(s != NULL && V_OLD(g_s->len) > 0 && g_s->dtor != NULL,
                g_dtor_calls == V_OLD(g_dtor_calls) + 1 && g_dtor_arg == V_OLD(g_td->userptr)))                      /*@C12.dtor-once-on-dropped-element*/
V_ENSURES(V_IMP(s != NULL && g_s->dtor == NULL, g_dtor_calls == V_OLD(g_dtor_calls)))                               /*@C12.no-dtor-no-call*/
;

V_CONTRACT
m_stack_itr_t *m_stack_itr_new(const m_stack_t *s)
V_REQUIRES(v_base_ok())
V_REQUIRES(s == NULL || (s == g_s && v_s_ok()))
V_ASSIGNS(g_alloc_calls, g_last_alloc)
V_ENSURES(V_IMP(s == NULL || g_s->len == 0, V_RET == NULL))                                                         /*@C12.itr-new-empty*/
V_ENSURES(V_IMP(s != NULL && g_s->len > 0 && V_OLD(g_oom_mask) == 0, V_RET != NULL))                                /*@C12.itr-new-succeeds*/
V_ENSURES(V_IMP(V_RET != NULL, V_RW_OK(V_RET, sizeof(m_stack_itr_t)) && V_RET->s == g_s && V_RET->elem == &g_s->data && !V_RET->removed))  /*@C12.itr-starts-at-first*/
;

V_CONTRACT
int m_stack_itr_next(m_stack_itr_t **itr)
V_REQUIRES(v_base_ok())
V_REQUIRES(itr == NULL || (V_RW_OK(itr, sizeof(*itr)) && *itr == g_itr_in && (*itr == NULL || (*itr == g_itr && v_sitr_ok(g_itr) && (g_itr->removed || g_C != NULL)))))
V_ASSIGNS(g_free_calls, g_free_arg, g_free_arg0; itr != NULL && *itr != NULL: *itr, g_itr->elem, g_itr->removed)
V_FREES(g_itr)
V_ENSURES(V_IMP(itr == NULL || g_itr_in == NULL, V_RET == -EINVAL))                                                 /*@C12.itr-next-rejects-null*/
V_ENSURES(V_IMP(itr != NULL && g_itr_in != NULL, V_RET == 0))
V_ENSURES(V_IMP(itr != NULL && g_itr_in != NULL && *itr != NULL,
                *itr == g_itr && !g_itr->removed
                && g_itr->elem == (V_OLD(g_itr->removed) ? g_slot : &g_C->prev) && *g_itr->elem != NULL))            /*@C12.itr-advances-exactly-one*/
V_ENSURES(V_IMP(itr != NULL && g_itr_in != NULL,
                (*itr == NULL) == ((V_OLD(g_itr->removed) ? g_C : V_OLD(g_Cd->prev)) == NULL)))                      /*@C12.itr-ends-iff-no-successor*/
V_ENSURES(V_IMP(itr != NULL && g_itr_in != NULL && *itr == NULL, g_free_calls == V_OLD(g_free_calls) + 1 && g_free_arg == (void *)g_itr))  /*@C12.itr-released-once*/
V_ENSURES(V_IMP(itr != NULL && g_itr_in != NULL && *itr != NULL, g_free_calls == V_OLD(g_free_calls)))
;

V_CONTRACT
int m_stack_itr_remove(m_stack_itr_t *itr)
V_REQUIRES(v_base_ok())
V_REQUIRES(itr == NULL || (itr == g_itr && v_sitr_ok(g_itr)))
V_ASSIGNS(g_free_calls, g_free_arg, g_free_arg0, g_dtor_calls, g_dtor_arg; itr != NULL: *g_slot, g_s->len, g_itr->removed)
V_FREES(g_C)
V_ENSURES(V_IMP(itr == NULL || V_OLD(g_itr->removed), V_RET == -EINVAL && g_free_calls == V_OLD(g_free_calls) && g_dtor_calls == V_OLD(g_dtor_calls)))  /*@C12.itr-remove-guard*/
V_ENSURES(V_IMP(itr != NULL && V_OLD(g_itr->removed), *g_slot == g_C && g_s->len == V_OLD(g_s->len) && g_itr->removed))
V_ENSURES(V_IMP(itr != NULL && !V_OLD(g_itr->removed) && g_C == NULL,
                V_RET == -ENOENT && *g_slot == NULL && g_s->len == V_OLD(g_s->len) && !g_itr->removed && g_free_calls == V_OLD(g_free_calls)))  /*@C12.itr-remove-at-end*/
V_ENSURES(V_IMP(itr != NULL && !V_OLD(g_itr->removed) && g_C != NULL,
                V_RET == 0 && *g_slot == V_OLD(g_Cd->prev) && g_s->len == V_OLD(g_s->len) - 1 && g_itr->removed
                && g_free_calls == V_OLD(g_free_calls) + 1 && g_free_arg == (void *)g_C))                            /*@C12.itr-remove-unlinks-current*/
V_ENSURES(V_IMP(itr != NULL && !V_OLD(g_itr->removed) && g_C != NULL && g_s->dtor != NULL,
                g_dtor_calls == V_OLD(g_dtor_calls) + 1 && g_dtor_arg == V_OLD(g_Cd->userptr)))                      /*@C12.itr-remove-dtor-once-on-removed*/
V_ENSURES(V_IMP(itr != NULL && g_s->dtor == NULL, g_dtor_calls == V_OLD(g_dtor_calls)))
;

V_CONTRACT
void *m_stack_itr_get_data(const m_stack_itr_t *itr)
V_REQUIRES(v_base_ok())
V_REQUIRES(itr == NULL || (itr == g_itr && v_sitr_ok(g_itr) && (g_itr->removed || g_C != NULL)))
V_ASSIGNS()
V_ENSURES(V_RET == ((itr == NULL || g_itr->removed) ? NULL : g_C->userptr))                                         /*@C12.itr-get-current*/
;

V_CONTRACT
int m_stack_itr_set_data(const m_stack_itr_t *itr, void *value)
V_REQUIRES(v_base_ok())
V_REQUIRES(itr == NULL || (itr == g_itr && v_sitr_ok(g_itr) && (g_itr->removed || g_C != NULL)))
V_ASSIGNS(itr != NULL && !g_itr->removed && value != NULL: g_C->userptr)
V_ENSURES(V_IMP(itr == NULL || g_itr->removed || value == NULL, V_RET == -EINVAL))                                  /*@C12.itr-set-guard*/
V_ENSURES(V_IMP(itr != NULL && !g_itr->removed && value != NULL, V_RET == 0 && g_C->userptr == value && g_dtor_calls == V_OLD(g_dtor_calls)))  /*@C12.itr-set-replaces-current-only*/
;
