/* Contracts for recipient selection of a publish in Lib/core/ps.c: tell_subscribers() and fetch_sub() (C02: exactly the modules that are RUNNING or PAUSED and
 * subscribed to the topic get one copy each).  The context's module table / a module's subscription table are ghost records {len}; their iterator is the ghost
 * singleton *g_mit (position idx), as for the queue iterator in abs.contracts.h.  Every visited element is (an alias of) the focus object. */
static inline bool v_mit_ok(void) { return g_mit != NULL && V_RW_OK(g_mit, sizeof(struct _map_itr)) && g_mit->m == (m_map_t *)g_tab && g_mit->idx < g_tab->len; }
V_CONTRACT
m_map_itr_t *m_map_itr_new(const m_map_t *m)
V_REQUIRES(m == (const m_map_t *)g_tab && g_mit != NULL && V_RW_OK(g_mit, sizeof(struct _map_itr)))
V_ASSIGNS(g_mit->m, g_mit->idx)
V_ENSURES(g_tab->len == 0 ? V_RET == NULL : (__CPROVER_pointer_equals(V_RET, g_mit) && g_mit->m == (m_map_t *)g_tab && g_mit->idx == 0))
;
V_CONTRACT
int m_map_itr_next(m_map_itr_t **itr)
V_REQUIRES(itr != NULL && V_RW_OK(itr, sizeof(*itr)) && *itr == (m_map_itr_t *)g_mit && v_mit_ok())
V_ASSIGNS(*itr, g_mit->idx, g.mit_freed)
V_ENSURES(V_RET == 0 && g_mit->idx == V_OLD(g_mit->idx) + 1 && (g_mit->idx < g_tab->len ? (*itr == V_OLD(*itr) && g.mit_freed == V_OLD(g.mit_freed)) : (*itr == NULL && g.mit_freed == V_OLD(g.mit_freed) + 1)))
;

#ifdef V_TELLSUBS_UNIT
V_CONTRACT
void *m_map_itr_get_data(const m_map_itr_t *itr)
V_REQUIRES(itr == (const m_map_itr_t *)g_mit && v_mit_ok())
V_ASSIGNS(g.itr_get_calls)
V_ENSURES(__CPROVER_pointer_equals(V_RET, g_mod) && g.itr_get_calls == V_OLD(g.itr_get_calls) + 1)
;
/* is this module eligible? (answer of this visit: any; the mask asked for is recorded) */
V_CONTRACT
bool m_mod_is(const m_mod_t *mod, m_mod_states st)
V_REQUIRES(mod == g_mod)
V_ASSIGNS(g.modis_calls, g.modis_mask, g.elig_count)
V_ENSURES(g.modis_calls == V_OLD(g.modis_calls) + 1 && g.modis_mask == (int)st && g.elig_count == V_OLD(g.elig_count) + (V_RET ? 1 : 0))
;
/* is it subscribed? (proved separately: unit ps.fetch_sub) */
V_CONTRACT
static ev_src_t *fetch_sub(m_mod_t *mod, const char *topic)
V_REQUIRES(mod == g_mod && topic == g_topic)
V_ASSIGNS(g.fetchsub_calls, g.hits)
V_ENSURES(g.fetchsub_calls == V_OLD(g.fetchsub_calls) + 1 && (V_RET == NULL || __CPROVER_pointer_equals(V_RET, g_psrc)) && g.hits == V_OLD(g.hits) + (V_RET != NULL ? 1 : 0))
;
V_CONTRACT
static int tell_if(void *data, const char *key, void *value)
V_REQUIRES(data == (void *)g_msg && value == (void *)g_mod)
V_REQUIRES(key == (const char *)g_psrc)                                                               /*@C02.copy-records-the-matched-subscription*/
V_ASSIGNS(g.tellif_calls)
V_ENSURES(V_RET == 0 && g.tellif_calls == V_OLD(g.tellif_calls) + 1)
;
V_CONTRACT
static void tell_subscribers(void *data, void *value)
V_REQUIRES(v_base_ok() && data == (void *)g_msg && V_R_OK(g_msg, sizeof(ps_priv_t)) && g_msg->msg.topic == g_topic && value == (void *)g_ctx && V_RW_OK(g_ctx, sizeof(m_ctx_t))
           && g_ctx->modules == (m_map_t *)g_tab && V_RW_OK(g_tab, sizeof(struct _map)) && g_tab->len < ((size_t)1 << 58) && g_mit != NULL && V_RW_OK(g_mit, sizeof(struct _map_itr)))
V_REQUIRES(g_m0 == g.modis_calls && g_el0 == g.elig_count && g_f0 == g.fetchsub_calls && g_h0 == g.hits && g_t0 == g.tellif_calls && g_fr0 == g.mit_freed)
V_ASSIGNS(g_mit->m, g_mit->idx, g.mit_freed, g.itr_get_calls, g.modis_calls, g.modis_mask, g.elig_count, g.fetchsub_calls, g.hits, g.tellif_calls)
/* every module of the context is examined exactly once; eligibility means RUNNING or PAUSED; the subscription lookup is made for exactly the eligible ones; and exactly
 * those that are eligible AND subscribed are told, once each, with the subscription that matched */
V_ENSURES(g.modis_calls == g_m0 + g_tab->len && V_IMP(g_tab->len > 0, g.modis_mask == (M_MOD_RUNNING | M_MOD_PAUSED)))                       /*@C02.every-module-examined-once-eligible-means-running-or-paused*/
V_ENSURES(g.fetchsub_calls - g_f0 == g.elig_count - g_el0 && g.tellif_calls - g_t0 == g.hits - g_h0)                                          /*@C02.exactly-the-eligible-and-subscribed-modules-are-told-once*/
V_ENSURES(g.mit_freed - g_fr0 == (g_tab->len > 0 ? 1 : 0))                                                                                      /*@C04.iterator-released-at-the-end-of-the-walk*/
;
#endif

#ifdef V_FETCHSUB_UNIT
/* fetch_sub(): exact topic first, else the first subscription (in table order) whose pattern matches, else none */
V_CONTRACT
void *m_map_get(const m_map_t *m, const char *key)
V_REQUIRES(m == (const m_map_t *)g_tab && key == g_topic)
V_ASSIGNS()
V_ENSURES(g_exact ? __CPROVER_pointer_equals(V_RET, g_psrc) : V_RET == NULL)
;
V_CONTRACT
void *m_map_itr_get_data(const m_map_itr_t *itr)
V_REQUIRES(itr == (const m_map_itr_t *)g_mit && v_mit_ok())
V_ASSIGNS(g.itr_get_calls)
V_ENSURES(__CPROVER_pointer_equals(V_RET, g_psrc) && g.itr_get_calls == V_OLD(g.itr_get_calls) + 1)
;
/* pattern of the subscription at the iterator's position against the topic: matches exactly at position g_match_at (if any) */
V_CONTRACT
int v_regexec(const regex_t *preg, const char *string, size_t nmatch, regmatch_t pmatch[], int eflags)
V_REQUIRES(preg == &g_psrc->ps_src.reg && string == g_topic && v_mit_ok())
V_ASSIGNS(g.regexec_calls)
V_ENSURES(g.regexec_calls == V_OLD(g.regexec_calls) + 1 && (V_RET == 0) == (g_mit->idx == g_match_at))
;
V_CONTRACT
static ev_src_t *fetch_sub(m_mod_t *mod, const char *topic)
V_REQUIRES(v_base_ok() && mod == g_mod && V_RW_OK(g_mod, sizeof(m_mod_t)) && g_mod->subscriptions == (m_map_t *)g_tab && V_RW_OK(g_tab, sizeof(struct _map)) && g_tab->len < ((size_t)1 << 58)
           && topic == g_topic && g_mit != NULL && V_RW_OK(g_mit, sizeof(struct _map_itr)) && g_psrc != NULL && V_R_OK(g_psrc, sizeof(ev_src_t)))
V_REQUIRES(g_r0 == g.regexec_calls && g_fr0 == g.mit_freed && g_fc0 == g_free_calls)
V_ASSIGNS(g_mit->m, g_mit->idx, g.mit_freed, g.itr_get_calls, g.regexec_calls, g_free_calls, g_free_arg, g_free_arg0)
V_FREES(g_mit)
/* subscribed iff the exact topic is there or some pattern matches; the exact entry wins without scanning */
V_ENSURES((V_RET != NULL) == (g_exact || g_match_at < g_tab->len))                                                                              /*@C02.subscribed-iff-exact-topic-or-a-matching-pattern*/ /*@C19.system-topics-reach-pattern-subscribers-like-any-topic*/
V_ENSURES(V_IMP(g_exact, g.regexec_calls == g_r0) && V_IMP(!g_exact && g_match_at < g_tab->len, g.regexec_calls == g_r0 + g_match_at + 1)
          && V_IMP(!g_exact && g_match_at >= g_tab->len, g.regexec_calls == g_r0 + g_tab->len))                                                 /*@C02.first-matching-pattern-in-table-order*/
/* the scan's iterator is released on every way out (early exit frees it by hand) */
V_ENSURES(V_IMP(!g_exact && g_tab->len > 0, (g.mit_freed - g_fr0) + (g_free_calls - g_fc0) == 1) && V_IMP(g_exact || g_tab->len == 0, g.mit_freed == g_fr0 && g_free_calls == g_fc0))  /*@C04.scan-iterator-released-exactly-once*/
;
#endif

#ifdef V_SUBSCRIBE_UNIT
/* m_mod_ps_subscribe(): the module's subscription table is keyed by the topic string OF THE SUBSCRIPTION STORED there (the caller's string, or the subscription's own
 * duplicate with M_SRC_DUP).  Ghost view of the one table entry for this topic: g_entry (is there one), g.map_key (the key pointer the table keeps for it),
 * g.freed_topic (a duplicated topic that a subscription destructor has released). */
V_CONTRACT int v_regcomp(regex_t *preg, const char *regex, int cflags) V_REQUIRES(preg != NULL && regex != NULL) V_ASSIGNS(g.regcomp_calls) V_ENSURES(V_RET == g_regcomp_ret && g.regcomp_calls == V_OLD(g.regcomp_calls) + 1);
V_CONTRACT m_map_t *m_map_new(m_map_flags flags, m_map_dtor fn) V_REQUIRES(flags == M_MAP_VAL_ALLOW_UPDATE) V_ASSIGNS(g.mapnew_calls) V_ENSURES(__CPROVER_is_fresh(V_RET, sizeof(struct _map)) && g.mapnew_calls == V_OLD(g.mapnew_calls) + 1);
V_CONTRACT
void *m_map_get(const m_map_t *m, const char *key)
V_REQUIRES(m == (const m_map_t *)g_tab && key == g_topic)
V_ASSIGNS()
V_ENSURES(g_entry ? __CPROVER_pointer_equals(V_RET, g_oldsub) : V_RET == NULL)
;
/* removing the entry runs the subscription destructor on the stored value: a duplicated topic is released with it */
V_CONTRACT
int m_map_remove(m_map_t *m, const char *key)
V_REQUIRES(m == (m_map_t *)g_tab && key != NULL)
V_ASSIGNS(g.maprm_calls, g_entry, g.subsdtor_calls, g.freed_topic, g.map_key)
V_ENSURES(g.maprm_calls == V_OLD(g.maprm_calls) + 1 && !g_entry && V_RET == (V_OLD(g_entry) ? 0 : -ENOENT)
          && V_IMP(V_OLD(g_entry), g.subsdtor_calls == V_OLD(g.subsdtor_calls) + 1 && g.map_key == NULL && g.freed_topic == ((g_oldsub->flags & M_SRC_DUP) ? g_oldsub->ps_src.topic : V_OLD(g.freed_topic)))
          && V_IMP(!V_OLD(g_entry), g.subsdtor_calls == V_OLD(g.subsdtor_calls) && g.freed_topic == V_OLD(g.freed_topic) && g.map_key == V_OLD(g.map_key)))
;
V_CONTRACT
void *m_mem_new(size_t size, m_ref_dtor dtor)
V_REQUIRES(size == sizeof(ev_src_t))
V_ASSIGNS(g.memnew_calls)
V_ENSURES(__CPROVER_is_fresh(V_RET, sizeof(ev_src_t)) && g.memnew_calls == V_OLD(g.memnew_calls) + 1)
;
V_CONTRACT char *mem_strdup(const char *s) V_REQUIRES(s != NULL) V_ASSIGNS(g.strdup_calls) V_ENSURES(g.strdup_calls == V_OLD(g.strdup_calls) + 1 && __CPROVER_is_fresh(V_RET, 2));
/* m_map_put on a table made with M_MAP_VAL_ALLOW_UPDATE (contract proved for the real map in units m.put*: C05.put-adds-new-key / update keeps the STORED key and
 * destroys the old value): a new key is stored as given; an update keeps the key pointer the table already has and runs the destructor on the value it replaces */
V_CONTRACT
int m_map_put(m_map_t *m, const char *key, void *value)
V_REQUIRES(m != NULL && key != NULL && value != NULL && key == ((ev_src_t *)value)->ps_src.topic)
V_ASSIGNS(g.mapput_calls, g.mapput_val, g_entry, g.map_key, g.subsdtor_calls, g.freed_topic)
V_ENSURES(V_RET == 0 && g.mapput_calls == V_OLD(g.mapput_calls) + 1 && __CPROVER_pointer_equals(g.mapput_val, value) && g_entry
          && (V_OLD(g_entry) ? (g.map_key == V_OLD(g.map_key) && g.subsdtor_calls == V_OLD(g.subsdtor_calls) + 1
                                && g.freed_topic == ((g_oldsub->flags & M_SRC_DUP) ? g_oldsub->ps_src.topic : V_OLD(g.freed_topic)))
                             : (g.map_key == key && g.subsdtor_calls == V_OLD(g.subsdtor_calls) && g.freed_topic == V_OLD(g.freed_topic))))
;
#define V_SUB_OK   (V_G_MOD(mod) && !(g_mod->flags & M_MOD_DENY_SUB) && topic != NULL && (V_PRIO(flags) == 0 || V_PRIO_ONE(flags)) && V_OLD(g_mod->tb.tokens) > 0)
#define V_PRIO(f)       ((f) & (M_SRC_PRIO_MASK))
#define V_PRIO_ONE(f)   (V_PRIO(f) == M_SRC_PRIO_LOW || V_PRIO(f) == M_SRC_PRIO_NORM || V_PRIO(f) == M_SRC_PRIO_HIGH)
V_CONTRACT
int m_mod_ps_subscribe(m_mod_t *mod, const char *topic, m_src_flags flags, const void *userptr)
V_REQUIRES(v_base_ok() && mod == g_mod && V_RW_OK(g_mod, sizeof(m_mod_t)) && v_state_valid(g_mod->state) && g_mod->ctx == g_ctx && (topic == NULL || topic == g_topic))
V_REQUIRES((g_mod->subscriptions == NULL && !g_entry) || (g_mod->subscriptions == (m_map_t *)g_tab && V_RW_OK(g_tab, sizeof(struct _map))))
V_REQUIRES(!g_entry || (g_oldsub != NULL && V_RW_OK(g_oldsub, sizeof(ev_src_t)) && g_oldsub->ps_src.topic != NULL && g.map_key == (const void *)g_oldsub->ps_src.topic))
V_REQUIRES(g.freed_topic == NULL && g.mapput_calls == 0 && g.memnew_calls == 0)
V_ASSIGNS(V_G_MOD(mod): g_mod->tb.tokens, g_mod->stats.last_seen, g_mod->stats.action_ctr, g.fetch_calls, g.regcomp_calls, g.mapnew_calls, g_mod->subscriptions, g.memnew_calls, g.strdup_calls,
          g.mapput_calls, g.mapput_val, g_entry, g.map_key, g.subsdtor_calls, g.freed_topic, g.maprm_calls; g_entry: g_oldsub->userptr)
/* a repeated subscription with the same flags is updated in place: only the user pointer changes, nothing is created or destroyed */
V_ENSURES(V_IMP(V_SUB_OK && g_regcomp_ret == 0 && V_OLD(g_entry) && g_oldsub->flags == flags, V_RET == 0 && g_oldsub->userptr == userptr && g.memnew_calls == 0 && g.mapput_calls == 0
                && g.subsdtor_calls == V_OLD(g.subsdtor_calls) && g_entry))                                                                   /*@C09.repeated-subscription-updated-in-place*/
/* a new topic, or a repeated subscription with other flags: exactly one subscription object is stored for the topic, carrying flags (with exactly one priority) and user pointer */
V_ENSURES(V_IMP(V_SUB_OK && g_regcomp_ret == 0 && !(V_OLD(g_entry) && g_oldsub->flags == flags), V_RET == 0 && g.memnew_calls == 1 && g.mapput_calls == 1 && g_entry
                && ((ev_src_t *)g.mapput_val)->userptr == userptr && ((ev_src_t *)g.mapput_val)->mod == g_mod && ((ev_src_t *)g.mapput_val)->type == M_SRC_TYPE_PS
                && V_PRIO_ONE(((ev_src_t *)g.mapput_val)->flags) && g.subsdtor_calls == V_OLD(g.subsdtor_calls) + (V_OLD(g_entry) ? 1 : 0)))               /*@C09.one-subscription-per-topic-replaced-when-flags-differ*/
/* the key the table keeps for the entry stays valid memory: it is never the duplicated topic of a subscription that was destroyed on the way */
V_ENSURES(V_IMP(V_SUB_OK && g_regcomp_ret == 0 && g_entry, g.map_key != NULL && (g.freed_topic == NULL || g.map_key != (const void *)g.freed_topic)))       /*@C04.subscription-table-key-is-not-released-memory*/
V_ENSURES(V_IMP(V_G_MOD(mod) && !(g_mod->flags & M_MOD_DENY_SUB) && topic != NULL && (V_PRIO(flags) == 0 || V_PRIO_ONE(flags)) && V_OLD(g_mod->tb.tokens) > 0 && g_regcomp_ret != 0,
                V_RET == g_regcomp_ret && g.memnew_calls == 0 && g.mapput_calls == 0))                                                         /*@C09.invalid-pattern-leaves-no-trace*/
;
#endif

#ifdef V_ROUTE_UNIT
/* routing of a system notification (tell_system_pubsub_msg -> tell_pubsub_msg): to the one recipient if given, else to the subscribers of its topic */
V_CONTRACT
static int tell_if(void *data, const char *key, void *value)
V_REQUIRES(data != NULL && V_R_OK(data, sizeof(ps_priv_t)))
V_ASSIGNS(g.tellif_calls, g.route_key, g.route_to, g.route_system, g.route_sender, g.route_topic, g.route_data)
V_ENSURES(V_RET == 0 && g.tellif_calls == V_OLD(g.tellif_calls) + 1 && g.route_key == (const void *)key && g.route_to == (const void *)value && g.route_system == ((ps_priv_t *)data)->msg.system
          && g.route_sender == (const void *)((ps_priv_t *)data)->msg.sender && g.route_topic == ((ps_priv_t *)data)->msg.topic && g.route_data == ((ps_priv_t *)data)->msg.data)
;
V_CONTRACT
static void tell_subscribers(void *data, void *value)
V_REQUIRES(data != NULL && V_R_OK(data, sizeof(ps_priv_t)) && value == (void *)g_ctx)
V_ASSIGNS(g.tellsubs_calls, g.route_system, g.route_sender, g.route_topic, g.route_data)
V_ENSURES(g.tellsubs_calls == V_OLD(g.tellsubs_calls) + 1 && g.route_system == ((ps_priv_t *)data)->msg.system
          && g.route_sender == (const void *)((ps_priv_t *)data)->msg.sender && g.route_topic == ((ps_priv_t *)data)->msg.topic && g.route_data == ((ps_priv_t *)data)->msg.data)
;
V_CONTRACT
int m_map_iterate(const m_map_t *m, m_map_cb fn, void *userptr)
V_REQUIRES(m == (const m_map_t *)g_tab && fn == tell_if && userptr != NULL && V_R_OK(userptr, sizeof(ps_priv_t)))
V_ASSIGNS(g.iterate_calls, g.route_system, g.route_sender, g.route_topic, g.route_data)
V_ENSURES(V_RET == 0 && g.iterate_calls == V_OLD(g.iterate_calls) + 1 && g.route_system == ((ps_priv_t *)userptr)->msg.system
          && g.route_sender == (const void *)((ps_priv_t *)userptr)->msg.sender && g.route_topic == ((ps_priv_t *)userptr)->msg.topic && g.route_data == ((ps_priv_t *)userptr)->msg.data)
;
/* is the topic on the reserved prefix? (string comparison abstracted to the ghost answer of this pre-state) */
V_CONTRACT size_t v_strlen(const char *s) V_REQUIRES(s != NULL) V_ASSIGNS() V_ENSURES(V_RET == 10);
V_CONTRACT int v_strncmp(const char *a, const char *b, size_t n) V_REQUIRES(a == g_topic && b != NULL && n == 10) V_ASSIGNS() V_ENSURES((V_RET == 0) == g_exact);
#define V_PUB_OK  (V_G_MOD(mod) && !(g_mod->flags & M_MOD_DENY_PUB) && V_OLD(g_mod->tb.tokens) > 0)
#ifdef V_PUBLISH_UNIT
V_CONTRACT
int m_mod_ps_publish(m_mod_t *mod, const char *topic, const void *message, m_ps_flags flags)
V_REQUIRES(v_base_ok() && mod == g_mod && V_RW_OK(g_mod, sizeof(m_mod_t)) && v_state_valid(g_mod->state) && g_mod->ctx == g_ctx && V_RW_OK(g_ctx, sizeof(m_ctx_t)) && g_ctx->modules == (m_map_t *)g_tab
           && (topic == NULL || topic == g_topic) && g_mod->stats.sent_msgs < UINT64_MAX)
V_ASSIGNS(V_G_MOD(mod): g_mod->tb.tokens, g_mod->stats.last_seen, g_mod->stats.action_ctr, g.fetch_calls, g_mod->stats.sent_msgs, g.tellif_calls, g.route_key, g.route_to, g.route_system, g.route_sender,
          g.route_topic, g.route_data, g.tellsubs_calls, g.iterate_calls)
/* a reserved (system) topic is never published by a module */
V_ENSURES(V_IMP(V_G_MOD(mod) && !(g_mod->flags & M_MOD_DENY_PUB) && topic != NULL && g_exact, V_RET == -EPERM && g.tellsubs_calls == V_OLD(g.tellsubs_calls) && g.iterate_calls == V_OLD(g.iterate_calls)
                && g_mod->tb.tokens == V_OLD(g_mod->tb.tokens)))                                                                              /*@C15.reserved-system-topic-always-refused*/
/* an accepted publish is handed to the subscribers of exactly that topic, once; without a topic it is a broadcast: one pass over every module of the sender's context;
 * in both cases as a user message naming the sender and carrying the caller's payload pointer */
V_ENSURES(V_IMP(V_PUB_OK && message != NULL && topic != NULL && !g_exact, V_RET == 0 && g.tellsubs_calls == V_OLD(g.tellsubs_calls) + 1 && g.iterate_calls == V_OLD(g.iterate_calls)
                && g.tellif_calls == V_OLD(g.tellif_calls)))                                                                                 /*@C02.publish-goes-to-the-subscribers-of-its-topic-once*/
V_ENSURES(V_IMP(V_PUB_OK && message != NULL && topic == NULL, V_RET == 0 && g.iterate_calls == V_OLD(g.iterate_calls) + 1 && g.tellsubs_calls == V_OLD(g.tellsubs_calls)
                && g.tellif_calls == V_OLD(g.tellif_calls)))                                                                                 /*@C02.broadcast-visits-every-module-of-the-context-once*/
V_ENSURES(V_IMP(V_PUB_OK && message != NULL && !(topic != NULL && g_exact), !g.route_system && g.route_sender == (const void *)g_mod && g.route_topic == topic && g.route_data == message
                && g_mod->stats.sent_msgs == V_OLD(g_mod->stats.sent_msgs) + 1 && g_mod->tb.tokens == V_OLD(g_mod->tb.tokens) - 1))          /*@C02.message-names-its-sender-and-carries-the-payload*/
V_ENSURES(V_IMP(V_PUB_OK && message == NULL && !(topic != NULL && g_exact), V_RET == -EINVAL && g.tellsubs_calls == V_OLD(g.tellsubs_calls) && g.iterate_calls == V_OLD(g.iterate_calls)))
;
#endif
#ifdef V_TELL_UNIT
V_CONTRACT
int m_mod_ps_tell(m_mod_t *mod, const m_mod_t *recipient, const void *message, m_ps_flags flags)
V_REQUIRES(v_base_ok() && mod == g_mod && V_RW_OK(g_mod, sizeof(m_mod_t)) && v_state_valid(g_mod->state) && g_mod->ctx == g_ctx && V_RW_OK(g_ctx, sizeof(m_ctx_t))
           && (recipient == NULL || V_R_OK(recipient, sizeof(m_mod_t))) && g_mod->stats.sent_msgs < UINT64_MAX)
V_ASSIGNS(V_G_MOD(mod): g_mod->tb.tokens, g_mod->stats.last_seen, g_mod->stats.action_ctr, g.fetch_calls, g_mod->stats.sent_msgs, g.tellif_calls, g.route_key, g.route_to, g.route_system, g.route_sender,
          g.route_topic, g.route_data, g.tellsubs_calls, g.iterate_calls)
/* a message cannot be addressed to a module of another context */
V_ENSURES(V_IMP(V_G_MOD(mod) && !(g_mod->flags & M_MOD_DENY_PUB) && recipient != NULL && recipient->ctx != g_mod->ctx, V_RET == -EINVAL && g.tellif_calls == V_OLD(g.tellif_calls)
                && g_mod->tb.tokens == V_OLD(g_mod->tb.tokens)))                                                                              /*@C14.message-cannot-be-addressed-to-a-module-of-another-context*/
/* an accepted tell goes to exactly its recipient, once, as a user message without topic naming the sender */
V_ENSURES(V_IMP(V_PUB_OK && recipient != NULL && recipient->ctx == g_mod->ctx && message != NULL, V_RET == 0 && g.tellif_calls == V_OLD(g.tellif_calls) + 1 && g.route_key == NULL
                && g.route_to == (const void *)recipient && !g.route_system && g.route_sender == (const void *)g_mod && g.route_topic == NULL && g.route_data == message
                && g.tellsubs_calls == V_OLD(g.tellsubs_calls) && g.iterate_calls == V_OLD(g.iterate_calls)))                                  /*@C02.tell-reaches-exactly-its-recipient*/
;
#endif
V_CONTRACT
int tell_system_pubsub_msg(const m_mod_t *recipient, m_ctx_t *c, m_mod_t *sender, const char *topic)
V_REQUIRES(v_base_ok() && c == g_ctx && V_RW_OK(g_ctx, sizeof(m_ctx_t)) && g_ctx->modules == (m_map_t *)g_tab && topic != NULL && (sender == NULL || (sender == g_mod && V_RW_OK(g_mod, sizeof(m_mod_t))))
           && (recipient == NULL || V_R_OK(recipient, sizeof(m_mod_t))) && g_mod->stats.sent_msgs < UINT64_MAX)
V_ASSIGNS(g.tellif_calls, g.route_key, g.route_to, g.route_system, g.route_sender, g.route_topic, g.route_data, g.tellsubs_calls, g.iterate_calls; sender != NULL: g_mod->stats.sent_msgs)
/* a notification with a recipient (the poison pill) goes to exactly that module, as a direct tell; one without goes to the subscribers of its topic -- exactly one publication,
 * whatever the state of the context (in particular whatever the number of RUNNING modules: PAUSED subscribers are legitimate recipients) */
V_ENSURES(V_RET == 0 && V_IMP(recipient != NULL, g.tellif_calls == V_OLD(g.tellif_calls) + 1 && g.route_key == NULL && g.route_to == (const void *)recipient && g.tellsubs_calls == V_OLD(g.tellsubs_calls)
                              && g.iterate_calls == V_OLD(g.iterate_calls)))                                                                  /*@C08.pill-told-directly-to-its-recipient*/
V_ENSURES(V_IMP(recipient == NULL, g.tellsubs_calls == V_OLD(g.tellsubs_calls) + 1 && g.tellif_calls == V_OLD(g.tellif_calls) && g.iterate_calls == V_OLD(g.iterate_calls)))   /*@C19.one-publication-per-notification-whatever-the-running-count*/
/* it is flagged as a system message, names the module it is about, carries the topic and no payload */
V_ENSURES(g.route_system && g.route_sender == (const void *)sender && g.route_topic == topic && g.route_data == NULL)                          /*@C19.notification-is-a-system-message-naming-its-module*/
V_ENSURES(V_IMP(sender != NULL, g_mod->stats.sent_msgs == V_OLD(g_mod->stats.sent_msgs) + 1))
;
#endif

#ifdef V_UNSUB_UNIT
V_CONTRACT int m_map_free(m_map_t **m) V_REQUIRES(m == &g_mod->subscriptions && *m == (m_map_t *)g_tab) V_ASSIGNS(g_mod->subscriptions, g.mapfree_calls) V_ENSURES(V_RET == 0 && g_mod->subscriptions == NULL && g.mapfree_calls == V_OLD(g.mapfree_calls) + 1);
V_CONTRACT
int m_mod_ps_unsubscribe(m_mod_t *mod, const char *topic)
V_REQUIRES(v_base_ok() && mod == g_mod && V_RW_OK(g_mod, sizeof(m_mod_t)) && v_state_valid(g_mod->state) && g_mod->ctx == g_ctx && (topic == NULL || topic == g_topic)
           && g_mod->subscriptions == (m_map_t *)g_tab && v_map_ok_fn(g_tab) && g_tab->len > 0)
V_ASSIGNS(V_G_MOD(mod): g_mod->tb.tokens, g_mod->stats.last_seen, g_mod->stats.action_ctr, g.fetch_calls, g.maprm_calls, g_tab->len, g_mod->subscriptions, g.mapfree_calls)
/* keyed set: exactly one removal is attempted, under the caller's topic; a present subscription goes (the table itself when it was the last one), an absent one fails without effect */
V_ENSURES(V_IMP(V_G_MOD(mod) && !(g_mod->flags & M_MOD_DENY_SUB) && topic != NULL && V_OLD(g_mod->tb.tokens) > 0, V_RET == g_maprm_ret && g.maprm_calls == V_OLD(g.maprm_calls) + 1
                && g_tab->len == V_OLD(g_tab->len) - (g_maprm_ret == 0 ? 1 : 0) && g.mapfree_calls == V_OLD(g.mapfree_calls) + ((g_maprm_ret == 0 && g_tab->len == 0) ? 1 : 0)
                && (g_mod->subscriptions == NULL) == (g_maprm_ret == 0 && g_tab->len == 0)))                                                  /*@C09.unsubscribe-removes-exactly-that-subscription-or-fails-without-effect*/
V_ENSURES(V_IMP(!(V_G_MOD(mod) && !(g_mod->flags & M_MOD_DENY_SUB) && topic != NULL && V_OLD(g_mod->tb.tokens) > 0), V_RET < 0 && g.maprm_calls == V_OLD(g.maprm_calls)))
;
#endif
