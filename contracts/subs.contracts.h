/* Contracts for recipient selection of a publish in Lib/core/ps.c: tell_subscribers() and fetch_sub() (C02: exactly the modules that are RUNNING or PAUSED and
 * subscribed to the topic get one copy each).  The context's module table / a module's subscription table are ghost records {len}; their iterator is the ghost
 * singleton *g_mit (position idx), as for the queue iterator in abs.contracts.h.  Every visited element is (an alias of) the focus object. */
static inline bool v_mit_ok(void) { return g_mit != NULL && V_RW_OK(g_mit, sizeof(struct _map_itr)) && g_mit->m == (m_map_t *)g_tab && g_mit->idx < g_tab->len; }
V_CONTRACT
m_map_itr_t *m_map_itr_new(const m_map_t *m)
V_REQUIRES(m == (const m_map_t *)g_tab && g_mit != NULL && V_RW_OK(g_mit, sizeof(struct _map_itr)))
V_ASSIGNS(g_mit->m, g_mit->idx)
V_ENSURES(g_tab->len == 0 ? V_RET == NULL : (__CPROVER_pointer_equals(V_RET, g_mit) && g_mit->m == (m_map_t *)g_tab && g_mit->idx == 0))
;
V_CONTRACT
int m_map_itr_next(m_map_itr_t **itr)
V_REQUIRES(itr != NULL && V_RW_OK(itr, sizeof(*itr)) && *itr == (m_map_itr_t *)g_mit && v_mit_ok())
V_ASSIGNS(*itr, g_mit->idx, g.mit_freed)
V_ENSURES(V_RET == 0 && g_mit->idx == V_OLD(g_mit->idx) + 1 && (g_mit->idx < g_tab->len ? (*itr == V_OLD(*itr) && g.mit_freed == V_OLD(g.mit_freed)) : (*itr == NULL && g.mit_freed == V_OLD(g.mit_freed) + 1)))
;

#ifdef V_TELLSUBS_UNIT
V_CONTRACT
void *m_map_itr_get_data(const m_map_itr_t *itr)
V_REQUIRES(itr == (const m_map_itr_t *)g_mit && v_mit_ok())
V_ASSIGNS(g.itr_get_calls)
V_ENSURES(__CPROVER_pointer_equals(V_RET, g_mod) && g.itr_get_calls == V_OLD(g.itr_get_calls) + 1)
;
/* is this module eligible? (answer of this visit: any; the mask asked for is recorded) */
V_CONTRACT
bool m_mod_is(const m_mod_t *mod, m_mod_states st)
V_REQUIRES(mod == g_mod)
V_ASSIGNS(g.modis_calls, g.modis_mask, g.elig_count)
V_ENSURES(g.modis_calls == V_OLD(g.modis_calls) + 1 && g.modis_mask == (int)st && g.elig_count == V_OLD(g.elig_count) + (V_RET ? 1 : 0))
;
/* is it subscribed? (proved separately: unit ps.fetch_sub) */
V_CONTRACT
static ev_src_t *fetch_sub(m_mod_t *mod, const char *topic)
V_REQUIRES(mod == g_mod && topic == g_topic)
V_ASSIGNS(g.fetchsub_calls, g.hits)
V_ENSURES(g.fetchsub_calls == V_OLD(g.fetchsub_calls) + 1 && (V_RET == NULL || __CPROVER_pointer_equals(V_RET, g_psrc)) && g.hits == V_OLD(g.hits) + (V_RET != NULL ? 1 : 0))
;
V_CONTRACT
static int tell_if(void *data, const char *key, void *value)
V_REQUIRES(data == (void *)g_msg && value == (void *)g_mod)
V_REQUIRES(key == (const char *)g_psrc)                                                               /*@C02.copy-records-the-matched-subscription*/
V_ASSIGNS(g.tellif_calls)
V_ENSURES(V_RET == 0 && g.tellif_calls == V_OLD(g.tellif_calls) + 1)
;
V_CONTRACT
static void tell_subscribers(void *data, void *value)
V_REQUIRES(v_base_ok() && data == (void *)g_msg && V_R_OK(g_msg, sizeof(ps_priv_t)) && g_msg->msg.topic == g_topic && value == (void *)g_ctx && V_RW_OK(g_ctx, sizeof(m_ctx_t))
           && g_ctx->modules == (m_map_t *)g_tab && V_RW_OK(g_tab, sizeof(struct _map)) && g_tab->len < ((size_t)1 << 58) && g_mit != NULL && V_RW_OK(g_mit, sizeof(struct _map_itr)))
V_REQUIRES(g_m0 == g.modis_calls && g_el0 == g.elig_count && g_f0 == g.fetchsub_calls && g_h0 == g.hits && g_t0 == g.tellif_calls && g_fr0 == g.mit_freed)
V_ASSIGNS(g_mit->m, g_mit->idx, g.mit_freed, g.itr_get_calls, g.modis_calls, g.modis_mask, g.elig_count, g.fetchsub_calls, g.hits, g.tellif_calls)
/* every module of the context is examined exactly once; eligibility means RUNNING or PAUSED; the subscription lookup is made for exactly the eligible ones; and exactly
 * those that are eligible AND subscribed are told, once each, with the subscription that matched */
V_ENSURES(g.modis_calls == g_m0 + g_tab->len && V_IMP(g_tab->len > 0, g.modis_mask == (M_MOD_RUNNING | M_MOD_PAUSED)))                       /*@C02.every-module-examined-once-eligible-means-running-or-paused*/
V_ENSURES(g.fetchsub_calls - g_f0 == g.elig_count - g_el0 && g.tellif_calls - g_t0 == g.hits - g_h0)                                          /*@C02.exactly-the-eligible-and-subscribed-modules-are-told-once*/
V_ENSURES(g.mit_freed - g_fr0 == (g_tab->len > 0 ? 1 : 0))                                                                                      /*@C04.iterator-released-at-the-end-of-the-walk*/
;
#endif

#ifdef V_FETCHSUB_UNIT
/* fetch_sub(): exact topic first, else the first subscription (in table order) whose pattern matches, else none */
V_CONTRACT
void *m_map_get(const m_map_t *m, const char *key)
V_REQUIRES(m == (const m_map_t *)g_tab && key == g_topic)
V_ASSIGNS()
V_ENSURES(g_exact ? __CPROVER_pointer_equals(V_RET, g_psrc) : V_RET == NULL)
;
V_CONTRACT
void *m_map_itr_get_data(const m_map_itr_t *itr)
V_REQUIRES(itr == (const m_map_itr_t *)g_mit && v_mit_ok())
V_ASSIGNS(g.itr_get_calls)
V_ENSURES(__CPROVER_pointer_equals(V_RET, g_psrc) && g.itr_get_calls == V_OLD(g.itr_get_calls) + 1)
;
/* pattern of the subscription at the iterator's position against the topic: matches exactly at position g_match_at (if any) */
V_CONTRACT
int v_regexec(const regex_t *preg, const char *string, size_t nmatch, regmatch_t pmatch[], int eflags)
V_REQUIRES(preg == &g_psrc->ps_src.reg && string == g_topic && v_mit_ok())
V_ASSIGNS(g.regexec_calls)
V_ENSURES(g.regexec_calls == V_OLD(g.regexec_calls) + 1 && (V_RET == 0) == (g_mit->idx == g_match_at))
;
V_CONTRACT
static ev_src_t *fetch_sub(m_mod_t *mod, const char *topic)
V_REQUIRES(v_base_ok() && mod == g_mod && V_RW_OK(g_mod, sizeof(m_mod_t)) && g_mod->subscriptions == (m_map_t *)g_tab && V_RW_OK(g_tab, sizeof(struct _map)) && g_tab->len < ((size_t)1 << 58)
           && topic == g_topic && g_mit != NULL && V_RW_OK(g_mit, sizeof(struct _map_itr)) && g_psrc != NULL && V_R_OK(g_psrc, sizeof(ev_src_t)))
V_REQUIRES(g_r0 == g.regexec_calls && g_fr0 == g.mit_freed && g_fc0 == g_free_calls)
V_ASSIGNS(g_mit->m, g_mit->idx, g.mit_freed, g.itr_get_calls, g.regexec_calls, g_free_calls, g_free_arg, g_free_arg0)
V_FREES(g_mit)
/* subscribed iff the exact topic is there or some pattern matches; the exact entry wins without scanning */
V_ENSURES((V_RET != NULL) == (g_exact || g_match_at < g_tab->len))                                                                              /*@C02.subscribed-iff-exact-topic-or-a-matching-pattern*/
V_ENSURES(V_IMP(g_exact, g.regexec_calls == g_r0) && V_IMP(!g_exact && g_match_at < g_tab->len, g.regexec_calls == g_r0 + g_match_at + 1)
          && V_IMP(!g_exact && g_match_at >= g_tab->len, g.regexec_calls == g_r0 + g_tab->len))                                                 /*@C02.first-matching-pattern-in-table-order*/
/* the scan's iterator is released on every way out (early exit frees it by hand) */
V_ENSURES(V_IMP(!g_exact && g_tab->len > 0, (g.mit_freed - g_fr0) + (g_free_calls - g_fc0) == 1) && V_IMP(g_exact || g_tab->len == 0, g.mit_freed == g_fr0 && g_free_calls == g_fc0))  /*@C04.scan-iterator-released-exactly-once*/
;
#endif
