/* Contracts for the loop life-cycle in Lib/core/ctx.c: loop_start, loop_stop, m_ctx_loop_events, m_ctx_dispatch, process_tick (C03, C19, C02, C07). */
enum { V_T_OTHER = 0, V_T_MOD_STARTED, V_T_MOD_STOPPED, V_T_CTX_STARTED, V_T_CTX_STOPPED, V_T_TICK, V_T_PILL };
static inline int v_topic_kind(const char *t) {
    if (t == NULL || t[0] != 'L' || t[9] != '_') return V_T_OTHER;
    if (t[10] == 'M' && t[14] == 'S' && t[16] == 'A') return V_T_MOD_STARTED;
    if (t[10] == 'M' && t[14] == 'S' && t[16] == 'O') return V_T_MOD_STOPPED;
    if (t[10] == 'M' && t[14] == 'P') return V_T_PILL;
    if (t[10] == 'C' && t[14] == 'S' && t[16] == 'A') return V_T_CTX_STARTED;
    if (t[10] == 'C' && t[14] == 'S' && t[16] == 'O') return V_T_CTX_STOPPED;
    if (t[10] == 'C' && t[14] == 'T') return V_T_TICK;
    return V_T_OTHER;
}
/* callees */
V_CONTRACT
int tell_system_pubsub_msg(const m_mod_t *recipient, m_ctx_t *c, m_mod_t *sender, const char *topic)
V_REQUIRES(c == g_ctx && topic != NULL)
V_ASSIGNS(g.sys_msgs, g.sys_sender, g.sys_kind, g.sys_ctx_started, g.sys_ctx_stopped, g.sys_tick, g.sys_at_flush)
V_ENSURES(V_RET == 0 && g.sys_msgs == V_OLD(g.sys_msgs) + 1 && __CPROVER_pointer_equals(g.sys_sender, sender) && g.sys_kind == v_topic_kind(topic) && g.sys_at_flush == g.flush_calls
          && g.sys_ctx_started == V_OLD(g.sys_ctx_started) + (v_topic_kind(topic) == V_T_CTX_STARTED ? 1 : 0)
          && g.sys_ctx_stopped == V_OLD(g.sys_ctx_stopped) + (v_topic_kind(topic) == V_T_CTX_STOPPED ? 1 : 0)
          && g.sys_tick == V_OLD(g.sys_tick) + (v_topic_kind(topic) == V_T_TICK ? 1 : 0))
;
V_CONTRACT
int m_map_iterate(const m_map_t *m, m_map_cb fn, void *userptr)
V_REQUIRES(m == g_modules && (fn == evaluate_module || fn == flush_pubsub_msgs))
V_ASSIGNS(g.eval_passes, g.flush_calls, g.quit_at_iter, g.quitcode_at_iter, g_ctx->stats.running_modules, g_ctx->quit, g_ctx->quit_code)
V_ENSURES(g.quit_at_iter == V_OLD(g_ctx->quit) && g.quitcode_at_iter == V_OLD(g_ctx->quit_code))
V_ENSURES(g.eval_passes == V_OLD(g.eval_passes) + (fn == evaluate_module ? 1 : 0) && g.flush_calls == V_OLD(g.flush_calls) + (fn == flush_pubsub_msgs ? 1 : 0))
V_ENSURES(V_IMP(fn == flush_pubsub_msgs, g_ctx->quit == V_OLD(g_ctx->quit) && g_ctx->quit_code == V_OLD(g_ctx->quit_code)))
;
V_CONTRACT int poll_init(poll_priv_t *priv) V_REQUIRES(priv == &g_ctx->ppriv) V_ASSIGNS(g.pollinit_calls) V_ENSURES(V_RET == g_pollinit_ret && g.pollinit_calls == V_OLD(g.pollinit_calls) + 1);
V_CONTRACT int poll_clear(poll_priv_t *priv) V_REQUIRES(priv == &g_ctx->ppriv) V_ASSIGNS(g.pollclear_calls) V_ENSURES(g.pollclear_calls == V_OLD(g.pollclear_calls) + 1);
V_CONTRACT int poll_set_new_evt(poll_priv_t *priv, ev_src_t *tmp, const enum op_type flag) V_REQUIRES(priv == &g_ctx->ppriv && tmp == g_ctx->tick.src) V_ASSIGNS(g.tick_poll_calls, g.tick_poll_flag)
  V_ENSURES(g.tick_poll_calls == V_OLD(g.tick_poll_calls) + 1 && g.tick_poll_flag == (int)flag);
V_CONTRACT int poll_consume_tmr(poll_priv_t *priv, const int idx, ev_src_t *src, m_evt_tmr_t *msg) V_REQUIRES(priv == &g_ctx->ppriv) V_ASSIGNS(g.tick_reads) V_ENSURES(g.tick_reads == V_OLD(g.tick_reads) + 1);
V_CONTRACT int fs_start(m_ctx_t *c) V_REQUIRES(1) V_ASSIGNS() V_ENSURES(V_RET == 0);
V_CONTRACT int fs_stop(m_ctx_t *c) V_REQUIRES(1) V_ASSIGNS() V_ENSURES(1);
V_CONTRACT int m_thpool_free(m_thpool_t **pool, bool wait_all) V_REQUIRES(pool == &g_ctx->thpool && !wait_all) V_ASSIGNS(g.thpool_free_calls, g_ctx->thpool) V_ENSURES(g.thpool_free_calls == V_OLD(g.thpool_free_calls) + 1 && g_ctx->thpool == NULL);

#define V_CTX_OK (v_base_ok() && V_RW_OK(g_ctx, sizeof(m_ctx_t)) && g_ctx->modules == g_modules && v_map_ok_fn(g_modules) && g_ctx->name != NULL)

#if defined(V_LOOPSTART_UNIT) || defined(V_LOOPSTOP_UNIT)
V_CONTRACT
static int loop_start(m_ctx_t *c, int max_events)
V_REQUIRES(c == g_ctx && V_CTX_OK && g_ctx->state == M_CTX_IDLE)
V_ASSIGNS(g.pollinit_calls, g.fetch_calls, g.eval_passes, g.flush_calls, g.quit_at_iter, g.quitcode_at_iter, g.sys_msgs, g.sys_sender, g.sys_kind, g.sys_ctx_started, g.sys_ctx_stopped, g.sys_tick, g.sys_at_flush, g.tick_poll_calls, g.tick_poll_flag,
          g_ctx->ppriv.max_events, g_ctx->stats.looping_start_time, g_ctx->state, g_ctx->quit, g_ctx->quit_code, g_ctx->stats.running_modules)
V_ENSURES(V_IMP(g_pollinit_ret != 0, V_RET == g_pollinit_ret && g_ctx->state == M_CTX_IDLE && g.sys_msgs == V_OLD(g.sys_msgs) && g.eval_passes == V_OLD(g.eval_passes)))
/* the loop starts: any stale quit request is cleared BEFORE the one evaluation pass over the modules (IDLE modules get started; a module's on_start may legitimately ask the
 * fresh loop to quit, so the flag is pinned at the moment the pass begins, not at return), exactly one loop-started notification */
V_ENSURES(V_IMP(g_pollinit_ret == 0, V_RET == 0 && g_ctx->state == M_CTX_LOOPING && !g.quit_at_iter && g.quitcode_at_iter == 0 && g.eval_passes == V_OLD(g.eval_passes) + 1))   /*@C01.evaluation-pass-when-the-loop-starts*/
V_ENSURES(V_IMP(g_pollinit_ret == 0, g.sys_ctx_started == V_OLD(g.sys_ctx_started) + 1 && g.sys_msgs == V_OLD(g.sys_msgs) + 1 && __CPROVER_pointer_equals(g.sys_sender, NULL)))                     /*@C19.exactly-one-loop-started-notification*/
;
V_CONTRACT
static uint8_t loop_stop(m_ctx_t *c)
V_REQUIRES(c == g_ctx && V_CTX_OK && g_ctx->state == M_CTX_LOOPING)
V_ASSIGNS(g.flush_calls, g.eval_passes, g.quit_at_iter, g.quitcode_at_iter, g.sys_msgs, g.sys_sender, g.sys_kind, g.sys_ctx_started, g.sys_ctx_stopped, g.sys_tick, g.sys_at_flush, g.tick_poll_calls, g.tick_poll_flag, g.pollclear_calls, g.thpool_free_calls,
          g.ctxdereg_calls, g_ctx->thpool, g_ctx->state, g_ctx->ppriv.max_events, g_ctx->stats.looping_start_time, g_ctx->stats.recv_msgs, g_ctx->stats.idle_time, g_ctx->stats.last_recv_time,
          g_ctx->stats.running_modules, g_ctx->quit, g_ctx->quit_code)
/* returns exactly the requested quit code */
V_ENSURES(V_RET == V_OLD(g_ctx->quit_code))                                                                                                 /*@C03.loop-returns-exactly-the-requested-code*/
/* exactly one loop-stopped notification, sent BEFORE the final flush, so that it is still delivered; then one flush pass hands pending messages to RUNNING modules */
V_ENSURES(g.sys_ctx_stopped == V_OLD(g.sys_ctx_stopped) + 1 && g.sys_msgs == V_OLD(g.sys_msgs) + 1 && g.sys_at_flush == V_OLD(g.flush_calls))  /*@C19.exactly-one-loop-stopped-notification-before-the-final-flush*/
V_ENSURES(g.flush_calls == V_OLD(g.flush_calls) + 1 && g_ctx->state == M_CTX_IDLE)                                                          /*@C02.pending-messages-flushed-when-the-loop-stops*/
/* a non-persistent context whose last module went away during the loop is released now; a persistent one, or one with modules, is kept */
V_ENSURES(g.ctxdereg_calls == V_OLD(g.ctxdereg_calls) + ((g_modules->len == 0 && !(g_ctx->flags & M_CTX_PERSIST)) ? 1 : 0))                    /*@C07.context-released-at-loop-stop-iff-empty-and-not-persistent*/
;
#endif

#ifdef V_TICK_UNIT
V_CONTRACT
static ev_src_t *process_tick(ev_src_t *this, m_ctx_t *c, int idx, evt_priv_t *evt)
V_REQUIRES(c == g_ctx && V_CTX_OK)
V_ASSIGNS(g.tick_reads, g.sys_msgs, g.sys_sender, g.sys_kind, g.sys_ctx_started, g.sys_ctx_stopped, g.sys_tick, g.sys_at_flush)
V_ENSURES(V_RET == this && g.tick_reads == V_OLD(g.tick_reads) + 1 && g.sys_tick == V_OLD(g.sys_tick) + 1 && g.sys_msgs == V_OLD(g.sys_msgs) + 1 && __CPROVER_pointer_equals(g.sys_sender, NULL))  /*@C19.one-tick-notification-per-timer-expiry*/
;
#endif

#ifdef V_DRIVER_UNIT
/* The two drivers of a loop: m_ctx_loop_events() (blocking) and m_ctx_dispatch() (one non-blocking step per call).  Their three building blocks are proved
 * in units ctx.loop_start / ctx.recv_events / ctx.loop_stop; here they are ghost-counted callees, and recv_events may change quit / quit code / running count at will. */
V_CONTRACT
static int loop_start(m_ctx_t *c, int max_events)
V_REQUIRES(c == g_ctx && g_ctx->state == M_CTX_IDLE && g.loopstop_calls == 0 && g.recvdrv_calls == 0)
V_ASSIGNS(g.loopstart_calls, g.loopstart_max, g_ctx->state, g_ctx->quit, g_ctx->quit_code, g_ctx->stats.running_modules)
V_ENSURES(V_RET == g_loopstart_ret && g.loopstart_calls == V_OLD(g.loopstart_calls) + 1 && g.loopstart_max == max_events && g_ctx->state == (g_loopstart_ret == 0 ? M_CTX_LOOPING : M_CTX_IDLE))
;
V_CONTRACT
static uint8_t loop_stop(m_ctx_t *c)
V_REQUIRES(c == g_ctx && g_ctx->state == M_CTX_LOOPING)
V_ASSIGNS(g.loopstop_calls, g.loopstop_cond, g_ctx->state)
V_ENSURES(V_RET == g_ctx->quit_code && g.loopstop_calls == V_OLD(g.loopstop_calls) + 1 && g.loopstop_cond == (g_ctx->quit || g_ctx->stats.running_modules == 0) && g_ctx->state == M_CTX_IDLE)
;
V_CONTRACT
static int recv_events(m_ctx_t *c, int timeout)
V_REQUIRES(c == g_ctx && g_ctx->state == M_CTX_LOOPING && g.loopstop_calls == 0)
V_REQUIRES(!g_ctx->quit && g_ctx->stats.running_modules > 0)                                                            /*@C03.no-polling-once-quit-was-requested-or-nothing-runs*/
V_ASSIGNS(g.recvdrv_calls, g.recvdrv_timeout, g_ctx->quit, g_ctx->quit_code, g_ctx->stats.running_modules)
V_ENSURES(V_RET == g_recvdrv_ret && g.recvdrv_calls == V_OLD(g.recvdrv_calls) + 1 && g.recvdrv_timeout == timeout)
;
V_CONTRACT
static int m_ctx_loop_events(m_ctx_t *c, int max_events)
V_REQUIRES(v_base_ok() && c == g_ctx && V_RW_OK(g_ctx, sizeof(m_ctx_t)) && g.loopstart_calls == 0 && g.loopstop_calls == 0 && g.recvdrv_calls == 0)
V_ASSIGNS(g.loopstart_calls, g.loopstart_max, g.loopstop_calls, g.loopstop_cond, g.recvdrv_calls, g.recvdrv_timeout, g_ctx->state, g_ctx->quit, g_ctx->quit_code, g_ctx->stats.running_modules)
V_ENSURES(V_IMP(max_events <= 0 || V_OLD(g_ctx->state) != M_CTX_IDLE, V_RET == -EINVAL && g.loopstart_calls == 0 && g.loopstop_calls == 0 && g.recvdrv_calls == 0 && g_ctx->state == V_OLD(g_ctx->state)))
V_ENSURES(V_IMP(max_events > 0 && V_OLD(g_ctx->state) == M_CTX_IDLE && g_loopstart_ret != 0, V_RET == g_loopstart_ret && g.loopstart_calls == 1 && g.loopstop_calls == 0 && g.recvdrv_calls == 0))
/* a started loop returns only through loop_stop(), exactly once, and only when a quit was requested or no module is RUNNING any more; it returns what loop_stop()
 * returns (the requested code); every wait is a blocking one */
V_ENSURES(V_IMP(max_events > 0 && V_OLD(g_ctx->state) == M_CTX_IDLE && g_loopstart_ret == 0,
                g.loopstart_calls == 1 && g.loopstart_max == max_events && g.loopstop_calls == 1 && g.loopstop_cond && V_RET == (int)g_ctx->quit_code && g_ctx->state == M_CTX_IDLE
                && (g.recvdrv_calls == 0 || g.recvdrv_timeout == -1)))                                                  /*@C03.loop-returns-only-on-quit-or-when-no-module-is-running*/
;
V_CONTRACT
int m_ctx_dispatch(void)
V_REQUIRES(v_base_ok() && (g_mctx == NULL || (g_mctx == g_ctx && V_RW_OK(g_ctx, sizeof(m_ctx_t)))) && g.loopstart_calls == 0 && g.loopstop_calls == 0 && g.recvdrv_calls == 0)
V_ASSIGNS(g_mctx != NULL: g.loopstart_calls, g.loopstart_max, g.loopstop_calls, g.loopstop_cond, g.recvdrv_calls, g.recvdrv_timeout, g_ctx->state, g_ctx->quit, g_ctx->quit_code, g_ctx->stats.running_modules)
V_ENSURES(V_IMP(g_mctx == NULL, V_RET == -EPIPE))
/* the same three steps as the blocking loop, one per call: first call starts, a call after quit (or when nothing runs) stops and returns the code, any other call
 * delivers what is ready without blocking */
V_ENSURES(V_IMP(g_mctx != NULL && V_OLD(g_ctx->state) == M_CTX_IDLE, g.loopstart_calls == 1 && g.loopstop_calls == 0 && g.recvdrv_calls == 0 && V_RET == g_loopstart_ret))   /*@C03.dispatch-first-call-starts*/
V_ENSURES(V_IMP(g_mctx != NULL && V_OLD(g_ctx->state) == M_CTX_LOOPING && (V_OLD(g_ctx->quit) || V_OLD(g_ctx->stats.running_modules) == 0),
                g.loopstop_calls == 1 && g.loopstart_calls == 0 && g.recvdrv_calls == 0 && V_RET == (int)V_OLD(g_ctx->quit_code)))                                         /*@C03.dispatch-call-after-quit-stops-and-returns-the-code*/
V_ENSURES(V_IMP(g_mctx != NULL && V_OLD(g_ctx->state) == M_CTX_LOOPING && !V_OLD(g_ctx->quit) && V_OLD(g_ctx->stats.running_modules) > 0,
                g.recvdrv_calls == 1 && g.recvdrv_timeout == 0 && g.loopstop_calls == 0 && g.loopstart_calls == 0 && V_RET == g_recvdrv_ret))                               /*@C03.dispatch-delivers-without-blocking*/
;
#endif
