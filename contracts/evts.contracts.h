/* Contracts for Lib/core/evts.c (C16 stash, C17 become/unbecome, C13 batch setters; guards serve C01/C07/C14/C18). */

/* the guard every state-dependent, rate-limited module call starts with */
#define V_MODREQ(mod)       (v_base_ok() && ((mod) == NULL || ((mod) == g_mod && V_RW_OK(g_mod, sizeof(m_mod_t)) && v_state_valid(g_mod->state) \
                             && g_mod->recvs == g_recvs && V_S_OK(g_recvs) && g_mod->stashed == g_stashq && V_Q_OK(g_stashq))))

V_CONTRACT
int m_mod_become(m_mod_t *mod, m_evt_cb new_on_evt)
V_REQUIRES(V_MODREQ(mod))
V_ASSIGNS(new_on_evt != NULL && V_G_RUNNING(mod) && g_mod->tb.tokens > 0: g, g_mod->tb.tokens, g_mod->stats.last_seen, g_mod->stats.action_ctr, g_recvs->len, g_recvs->top)
/* refused (and, by the frame above, without any effect) unless the module exists, is not a zombie, belongs to the calling
 * thread's context, is RUNNING and has a token left */
V_ENSURES(V_IMP(!(new_on_evt != NULL && V_G_RUNNING(mod) && V_OLD(g_mod->tb.tokens) > 0), V_RET < 0))                                        /*@C17.become-refused-unless-running*/
V_ENSURES(V_IMP(new_on_evt != NULL && V_G_RUNNING(mod) && V_OLD(g_mod->tb.tokens) == 0, V_RET == -EAGAIN))                                    /*@C18.no-token-means-eagain*/
V_ENSURES(V_IMP(mod != NULL && !(g_mod->state & M_MOD_ZOMBIE) && new_on_evt != NULL && g_mod->ctx != g_mctx, V_RET == -EPERM))                /*@C14.foreign-thread-refused*/
V_ENSURES(V_IMP(new_on_evt != NULL && V_G_RUNNING(mod) && V_OLD(g_mod->tb.tokens) > 0,
                V_RET == 0 && g.push_calls == V_OLD(g.push_calls) + 1 && __CPROVER_pointer_equals(g.push_arg, (void *)new_on_evt) && g_recvs->top == (void *)new_on_evt
                && g_recvs->len == V_OLD(g_recvs->len) + 1))                                                                                 /*@C17.become-pushes-exactly-this-handler*/
V_ENSURES(V_IMP(new_on_evt != NULL && V_G_RUNNING(mod) && V_OLD(g_mod->tb.tokens) > 0, g_mod->tb.tokens == V_OLD(g_mod->tb.tokens) - 1))      /*@C18.success-consumes-one-token*/
;

V_CONTRACT
int m_mod_unbecome(m_mod_t *mod)
V_REQUIRES(V_MODREQ(mod))
V_ASSIGNS(V_G_RUNNING(mod) && g_mod->tb.tokens > 0: g, g_mod->tb.tokens, g_mod->stats.last_seen, g_mod->stats.action_ctr, g_recvs->len, g_recvs->top)
V_ENSURES(V_IMP(!(V_G_RUNNING(mod) && V_OLD(g_mod->tb.tokens) > 0), V_RET < 0))                                                              /*@C17.unbecome-refused-unless-running*/
V_ENSURES(V_IMP(V_G_RUNNING(mod) && V_OLD(g_mod->tb.tokens) == 0, V_RET == -EAGAIN))                                                          /*@C18.no-token-means-eagain*/
V_ENSURES(V_IMP(V_G_RUNNING(mod) && V_OLD(g_mod->tb.tokens) > 0 && V_OLD(g_recvs->len) == 0, V_RET == -EINVAL && g_recvs->len == 0))          /*@C17.unbecome-fails-on-empty-stack*/
V_ENSURES(V_IMP(V_G_RUNNING(mod) && V_OLD(g_mod->tb.tokens) > 0 && V_OLD(g_recvs->len) > 0,
                V_RET == 0 && g.pop_calls == V_OLD(g.pop_calls) + 1 && g_recvs->len == V_OLD(g_recvs->len) - 1))                              /*@C17.unbecome-pops-exactly-the-top*/
;

V_CONTRACT
int m_mod_stash(m_mod_t *mod, const m_evt_t *evt)
V_REQUIRES(V_MODREQ(mod))
V_REQUIRES(evt == NULL || (evt == (const m_evt_t *)g_evt && V_RW_OK(g_evt, sizeof(evt_priv_t)) && g_evt->src == g_src && (g_src == NULL || V_R_OK(g_src, sizeof(ev_src_t)))))
V_REQUIRES(mod == NULL || g_stashq->len < ((size_t)1 << 58))
V_ASSIGNS(evt != NULL && V_G_RUNNING(mod) && g_mod->tb.tokens > 0: g, g_mod->tb.tokens, g_mod->stats.last_seen, g_mod->stats.action_ctr, g_stashq->len, g_stashq->first, g_stashq->last)
V_ENSURES(V_IMP(!(evt != NULL && V_G_RUNNING(mod) && V_OLD(g_mod->tb.tokens) > 0), V_RET < 0))                                               /*@C16.stash-only-for-running-module*/
V_ENSURES(V_IMP(evt != NULL && V_G_RUNNING(mod) && V_OLD(g_mod->tb.tokens) == 0, V_RET == -EAGAIN))                                           /*@C18.no-token-means-eagain*/
/* high-priority events can never be stashed; nothing is retained */
V_ENSURES(V_IMP(evt != NULL && V_G_RUNNING(mod) && V_OLD(g_mod->tb.tokens) > 0 && g_src != NULL && (g_src->flags & M_SRC_PRIO_HIGH),
                V_RET == -EPERM && g.ref_calls == V_OLD(g.ref_calls) && g.enq_calls == V_OLD(g.enq_calls) && g_stashq->len == V_OLD(g_stashq->len)))  /*@C16.high-priority-never-stashed*/
/* otherwise the event is retained: exactly one reference taken, appended exactly once at the tail of the stash */
V_ENSURES(V_IMP(evt != NULL && V_G_RUNNING(mod) && V_OLD(g_mod->tb.tokens) > 0 && !(g_src != NULL && (g_src->flags & M_SRC_PRIO_HIGH)),
                V_RET == 0 && g.ref_calls == V_OLD(g.ref_calls) + 1 && __CPROVER_pointer_equals(g.ref_arg, (void *)g_evt
               ) && g.enq_calls == V_OLD(g.enq_calls) + 1 && __CPROVER_pointer_equals(g.enq_q, g_stashq) && __CPROVER_pointer_equals(g.enq_arg, (void *)g_evt
               ) && g_stashq->len == V_OLD(g_stashq->len) + 1 && g_stashq->last == (void *)g_evt))                                            /*@C16.stash-retains-event-at-tail*/
;

V_CONTRACT
int m_mod_set_batch_size(m_mod_t *mod, size_t len)
V_REQUIRES(V_MODREQ(mod))
V_ASSIGNS(V_G_MOD(mod) && g_mod->tb.tokens > 0: g, g_mod->tb.tokens, g_mod->stats.last_seen, g_mod->stats.action_ctr, g_mod->batch.len)
V_ENSURES(V_IMP(!(V_G_MOD(mod) && V_OLD(g_mod->tb.tokens) > 0), V_RET < 0))                                                                  /*@C13.batch-size-setter-guard*/
V_ENSURES(V_IMP(V_G_MOD(mod) && V_OLD(g_mod->tb.tokens) == 0, V_RET == -EAGAIN))                                                              /*@C18.no-token-means-eagain*/
V_ENSURES(V_IMP(V_G_MOD(mod) && V_OLD(g_mod->tb.tokens) > 0, V_RET == 0 && g_mod->batch.len == len && g_mod->tb.tokens == V_OLD(g_mod->tb.tokens) - 1))  /*@C13.batch-size-set-exactly*/
;

/* callee in ps.c (see ps.contracts.h for the version it is proved against) */
V_CONTRACT
void call_pubsub_cb(m_mod_t *mod, m_queue_t *evts)
V_REQUIRES(mod != NULL && V_Q_OK(evts))
V_ASSIGNS(g.cb_calls, g.cb_mod, g.cb_q, g.cb_qlen)
V_ENSURES(g.cb_calls == V_OLD(g.cb_calls) + 1 && __CPROVER_pointer_equals(g.cb_mod, mod) && __CPROVER_pointer_equals(g.cb_q, evts) && g.cb_qlen == evts->len)
;

#define V_G_UNSTASH(mod, len)  (V_G_RUNNING(mod) && (len) > 0 && V_OLD(g_mod->tb.tokens) > 0)
#define V_MIN(a, b) ((a) < (b) ? (a) : (b))
V_CONTRACT
ssize_t m_mod_unstash(m_mod_t *mod, size_t len)
V_REQUIRES(V_MODREQ(mod) && (mod == NULL || g_stashq->len < ((size_t)1 << 58)))
V_REQUIRES(g_S0 == g_stashq->len && g_enq0 == g.enq_calls && g_ref0 == g.ref_calls && g_rm0 == g.itr_rm_calls && g_get0 == g.itr_get_calls && g_cb0 == g.cb_calls && !g.itr_nonhead)
V_ASSIGNS(V_G_RUNNING(mod) && len > 0 && g_mod->tb.tokens > 0: g.fetch_calls, g.qnew_calls, g.qnew_ret, g.enq_calls, g.enq_arg, g.enq_q, g.ref_calls, g.ref_arg, g.itr_rm_calls, g.itr_get_calls, g.itr_nonhead, g.itr_elem,
          g.cb_calls, g.cb_mod, g.cb_q, g.cb_qlen, g_mod->tb.tokens, g_mod->stats.last_seen, g_mod->stats.action_ctr, g_stashq->len, g_stashq->first, g_stashq->last,
          g_free_calls, g_free_arg, g_free_arg0, g_qit->q, g_qit->idx, g_qit->removed)
V_ENSURES(V_IMP(!V_G_UNSTASH(mod, len), V_RET < 0))                                                                                          /*@C16.unstash-only-for-running-module*/
V_ENSURES(V_IMP(V_G_RUNNING(mod) && len > 0 && V_OLD(g_mod->tb.tokens) == 0, V_RET == -EAGAIN))                                               /*@C18.no-token-means-eagain*/
/* exactly min(n, number stashed) events are handed over, and that number is returned */
V_ENSURES(V_IMP(V_G_UNSTASH(mod, len), V_RET == (ssize_t)V_MIN(len, g_S0) && g_stashq->len == g_S0 - V_MIN(len, g_S0)))                       /*@C16.unstash-exactly-min-n-stashed*/
/* ... the oldest ones, in stash order: every one was taken from the head of the stash and appended to the delivery queue;
 * each is referenced once for the delivery and removed once from the stash (redelivered at most once) */
V_ENSURES(V_IMP(V_G_UNSTASH(mod, len), !g.itr_nonhead && g.enq_calls == g_enq0 + V_MIN(len, g_S0) && g.itr_rm_calls == g_rm0 + V_MIN(len, g_S0)
                && g.ref_calls == g_ref0 + V_MIN(len, g_S0)))                                                                                /*@C16.oldest-first-each-moved-once*/
/* ... in ONE handler invocation */
V_ENSURES(V_IMP(V_G_UNSTASH(mod, len), g.cb_calls == g_cb0 + 1 && __CPROVER_pointer_equals(g.cb_mod, g_mod) && __CPROVER_pointer_equals(g.cb_q, g.qnew_ret) && g.cb_qlen == V_MIN(len, g_S0)))  /*@C16.single-invocation-with-the-unstashed-events*/
;

/* ---- new_evt(): an event for a source; a pub/sub message sent by tell/broadcast has NO subscription, so src may be NULL ---------- */
V_CONTRACT
void *m_mem_new(size_t size, m_ref_dtor dtor)
V_REQUIRES(size == sizeof(evt_priv_t))
V_ASSIGNS(g.memnew_calls)
V_ENSURES(__CPROVER_is_fresh(V_RET, sizeof(evt_priv_t)) && g.memnew_calls == V_OLD(g.memnew_calls) + 1)
;
V_CONTRACT
evt_priv_t *new_evt(ev_src_t *src)
V_REQUIRES(v_base_ok() && (src == NULL || (src == g_src && V_R_OK(g_src, sizeof(ev_src_t)))))
V_ASSIGNS(g.memnew_calls, g.ref_calls, g.ref_arg)
V_ENSURES(V_IMP(!g_alloc_fails, V_RET != NULL && V_RET->src == src && V_RET->evt.type == (src ? src->type : M_SRC_TYPE_PS)))                  /*@C02.event-for-a-message-without-subscription*/
V_ENSURES(V_IMP(!g_alloc_fails && src != NULL, g.ref_calls == V_OLD(g.ref_calls) + 1 && __CPROVER_pointer_equals(g.ref_arg, (void *)src)))                            /*@C04.event-holds-a-reference-on-its-source*/
;

#ifdef V_BT_UNIT
/* m_mod_set_batch_timeout(): the internal batch timer is replaced; timed batching alone is switched on with the sentinel size SIZE_MAX */
V_CONTRACT
int m_mod_src_deregister_tmr(m_mod_t *mod, const m_src_tmr_t *its)
V_REQUIRES(mod == g_mod && its != NULL)
V_ASSIGNS(g.deregtmr_calls, g.deregtmr_arg, g.deregtmr_ns, g_mod->tb.tokens)
V_ENSURES(g.deregtmr_calls == V_OLD(g.deregtmr_calls) + 1 && __CPROVER_pointer_equals(g.deregtmr_arg, its) && g.deregtmr_ns == its->ns && g_mod->tb.tokens <= V_OLD(g_mod->tb.tokens))
;
V_CONTRACT
int m_mod_src_register_tmr(m_mod_t *mod, const m_src_tmr_t *its, m_src_flags flags, const void *userptr)
V_REQUIRES(mod == g_mod && its != NULL)
V_ASSIGNS(g.regtmr_calls, g.regtmr_arg, g.regtmr_flags, g.regtmr_up, g.regtmr_ns, g_mod->tb.tokens)
V_ENSURES(V_RET == g_regtmr_ret && g.regtmr_calls == V_OLD(g.regtmr_calls) + 1 && __CPROVER_pointer_equals(g.regtmr_arg, its) && g.regtmr_flags == flags && __CPROVER_pointer_equals(g.regtmr_up, userptr) && g.regtmr_ns == its->ns
          && g_mod->tb.tokens <= V_OLD(g_mod->tb.tokens))
;
V_CONTRACT
int m_mod_set_batch_timeout(m_mod_t *mod, uint64_t timeout_ns)
V_REQUIRES(V_MODREQ(mod))
V_ASSIGNS(V_G_MOD(mod): g.deregtmr_calls, g.deregtmr_arg, g.deregtmr_ns, g.regtmr_calls, g.regtmr_arg, g.regtmr_flags, g.regtmr_up, g.regtmr_ns, g_mod->tb.tokens, g_mod->batch.timer, g_mod->batch.len)
V_ENSURES(V_IMP(!V_G_MOD(mod), V_RET < 0))
/* a previously configured batch timer is removed (looked up by its old period) before the new period is stored */
V_ENSURES(V_IMP(V_G_MOD(mod), g.deregtmr_calls == V_OLD(g.deregtmr_calls) + (V_OLD(g_mod->batch.timer.ns) != 0 ? 1 : 0)
                && V_IMP(V_OLD(g_mod->batch.timer.ns) != 0, g.deregtmr_arg == &g_mod->batch.timer && g.deregtmr_ns == V_OLD(g_mod->batch.timer.ns))))      /*@C13.old-batch-timer-removed-on-reconfiguration*/
/* a non-zero timeout: an internal high-priority timer with exactly that period, keyed by the module's batch record (push_evt() flushes on it);
 * a module that batches by time only gets the sentinel size so that the count never triggers */
V_ENSURES(V_IMP(V_G_MOD(mod) && timeout_ns != 0, V_RET == g_regtmr_ret && g_mod->batch.timer.ns == timeout_ns && g_mod->batch.timer.clock_id == CLOCK_MONOTONIC
                && g.regtmr_calls == V_OLD(g.regtmr_calls) + 1 && g.regtmr_arg == &g_mod->batch.timer && g.regtmr_up == (const void *)&g_mod->batch && g.regtmr_ns == timeout_ns
                && (g.regtmr_flags & M_SRC_INTERNAL) && (g.regtmr_flags & M_SRC_PRIO_HIGH)
                && g_mod->batch.len == (V_OLD(g_mod->batch.len) == 0 ? SIZE_MAX : V_OLD(g_mod->batch.len))))                                                 /*@C13.batch-timeout-armed-with-the-configured-period*/
/* timeout 0 switches timed batching off: no timer is left, and a module whose ONLY batching was the timeout (sentinel size) is back to
 * "neither a batch size nor a batch timeout configured": every normal event is delivered at once again */
V_ENSURES(V_IMP(V_G_MOD(mod) && timeout_ns == 0, V_RET == 0 && g_mod->batch.timer.ns == 0 && g.regtmr_calls == V_OLD(g.regtmr_calls)
                && g_mod->batch.len == (V_OLD(g_mod->batch.len) == SIZE_MAX ? 0 : V_OLD(g_mod->batch.len))))                                                 /*@C13.timeout-zero-leaves-no-batching-behind*/
;
#endif
