/* Contracts for Lib/core/ctx.c. */

/* callee in another file (ps.c): verified in units/ps_unit.c against the concrete version of this contract */
V_CONTRACT
void call_pubsub_cb(m_mod_t *mod, m_queue_t *evts)
V_REQUIRES(mod != NULL && V_Q_OK(evts))
V_ASSIGNS(g.cb_calls, g.cb_mod, g.cb_q, g.cb_qlen)
V_ENSURES(g.cb_calls == V_OLD(g.cb_calls) + 1 && __CPROVER_pointer_equals(g.cb_mod, mod) && __CPROVER_pointer_equals(g.cb_q, evts) && g.cb_qlen == evts->len)
;

#define V_PUSH_INTERNAL   (g_src != NULL && (g_src->flags & M_SRC_INTERNAL) != 0)
#define V_PUSH_HIGH       (g_src != NULL && (g_src->flags & M_SRC_PRIO_HIGH) != 0)
#define V_PUSH_LOW        (g_src != NULL && !V_PUSH_INTERNAL && !(g_src->flags & M_SRC_PRIO_HIGH) && (g_src->flags & M_SRC_PRIO_LOW) != 0)

V_CONTRACT
static void push_evt(m_mod_t *mod, evt_priv_t *evt)
V_REQUIRES(v_base_ok() && mod == g_mod && evt == g_evt && V_RW_OK(g_mod, sizeof(m_mod_t)) && V_RW_OK(g_evt, sizeof(evt_priv_t)))
V_REQUIRES(g_evt->src == g_src && (g_src == NULL || V_RW_OK(g_src, sizeof(ev_src_t))))
V_REQUIRES(g_mod->batch.events == g_batchq && V_Q_OK(g_batchq) && g_batchq->len < ((size_t)1 << 58))
V_REQUIRES(g_mod->state == M_MOD_RUNNING)                                   /* C01: handlers only run for RUNNING modules (checked at every call site) */
V_ASSIGNS(g, g_mod->tb.tokens, g_mod->batch.events, g_batchq->len, g_batchq->first, g_batchq->last, g_evt->evt.userdata)
/* no loss, no duplication: a non-internal event is appended exactly once to the module's accumulation queue; an internal
 * (timer) event is released, never handed to the user */
V_ENSURES(g.enq_calls == V_OLD(g.enq_calls) + (V_PUSH_INTERNAL ? 0 : 1)
          && V_IMP(!V_PUSH_INTERNAL, __CPROVER_pointer_equals(g.enq_arg, (void *)g_evt) && __CPROVER_pointer_equals(g.enq_q, g_batchq))
          && g.unref_calls == V_OLD(g.unref_calls) + (V_PUSH_INTERNAL ? 1 : 0) && V_IMP(V_PUSH_INTERNAL, __CPROVER_pointer_equals(g.unref_arg, (void *)g_evt)))      /*@C13.no-loss-no-duplication*/ /*@C08.every-event-joins-the-tail-of-the-accumulation-queue*/
/* the handler runs exactly when: high priority, or batch timeout expired (internal timer keyed by &mod->batch), or a
 * normal-priority event brings the accumulated count to the configured batch size; never for a low-priority event by itself;
 * never with nothing accumulated */
V_ENSURES(g.cb_calls == V_OLD(g.cb_calls) +
          ((!V_PUSH_LOW && (V_OLD(g_batchq->len) + (V_PUSH_INTERNAL ? 0 : 1)) > 0
            && ((V_PUSH_INTERNAL ? g_src->userptr == (void *)&g_mod->batch : V_PUSH_HIGH)
                || (V_OLD(g_batchq->len) + (V_PUSH_INTERNAL ? 0 : 1)) >= g_mod->batch.len)) ? 1 : 0))                                       /*@C13.handler-invoked-exactly-when*/
/* ... with exactly the accumulated events (the same queue object, in arrival order), and a fresh empty queue takes its place */
V_ENSURES(V_IMP(g.cb_calls > V_OLD(g.cb_calls), __CPROVER_pointer_equals(g.cb_mod, g_mod) && __CPROVER_pointer_equals(g.cb_q, g_batchq) && g.cb_qlen == V_OLD(g_batchq->len) + (V_PUSH_INTERNAL ? 0 : 1)
                && g_mod->batch.events == g.qnew_ret && g.qnew_calls == V_OLD(g.qnew_calls) + 1 && g_mod->batch.events != g_batchq))          /*@C13.handler-gets-the-accumulated-events*/ /*@C08.handler-gets-the-whole-queue-older-events-first*/
V_ENSURES(V_IMP(g.cb_calls == V_OLD(g.cb_calls), g_mod->batch.events == g_batchq && g.qnew_calls == V_OLD(g.qnew_calls)))                    /*@C13.events-stay-accumulated-otherwise*/
/* token bucket refill: one token per tick of the internal refill timer, capped at burst; nothing else touches the bucket */
V_ENSURES(g_mod->tb.tokens == ((V_PUSH_INTERNAL && g_src->userptr == (void *)&g_mod->tb && V_OLD(g_mod->tb.tokens) < g_mod->tb.burst)
                               ? V_OLD(g_mod->tb.tokens) + 1 : V_OLD(g_mod->tb.tokens)))                                                    /*@C18.refill-one-token-per-tick-capped-at-burst*/
/* the event carries the user data given at registration */
V_ENSURES(V_IMP(!V_PUSH_INTERNAL && g_src != NULL, g_evt->evt.userdata == g_src->userptr))                                                  /*@C03.event-carries-registration-userdata*/
V_ENSURES(V_IMP(g_src == NULL, g_evt->evt.userdata == V_OLD(g_evt->evt.userdata)))
;
