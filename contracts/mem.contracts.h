/* Contracts for Lib/mem/mem.c (property C10; safety obligations also count for C04).
 * Included AFTER the real translation unit, so mem_header_t is visible.  Re-declaration with contract clauses
 * attaches the contract to the function symbol (CBMC); in native mode lib/gen_native.py turns the same text
 * into a checking wrapper v_wrap_<fn>.
 *
 * Ghost state: g_blk / g_shift describe the focus block (header address and padding); contracts speak about
 * the header through g_blk because assigns targets / history variables that compute the header address through
 * a memory read (src[-1]) made the SAT instance 20x larger (measured: 37 s vs 2 s). The link between the user
 * pointer and g_blk is part of the representation predicate v_blk_rep(), so nothing is assumed about it. */
#ifndef V_MEM_MAX_LOG
#define V_MEM_MAX_LOG 40              /* stated bound on requested sizes (statement: "0..several KiB") */
#endif
#define V_MEM_MAX ((size_t)1 << V_MEM_MAX_LOG)
#define V_ALIGN   (_Alignof(max_align_t))
#define V_HSZ     (sizeof(mem_header_t))

/* representation predicate: src is the user pointer of the live block whose header is g_blk */
static inline bool v_blk_rep(void *src) {
    if (g_blk == NULL || !V_RW_OK(g_blk, V_HSZ)) return false;
    if (g_shift < 1 || g_shift > V_ALIGN) return false;
    if ((uint8_t *)src != (uint8_t *)g_blk + V_HSZ + g_shift) return false;
#ifdef V_CBMC
    if (V_OFFSET(g_blk) != 0) return false;                       /* header is what the allocator returned */
    if (g_blk->size > V_MEM_MAX) return false;
    if (V_OBJECT_SIZE(g_blk) != V_HSZ + g_shift + g_blk->size) return false;
#else
    if (!V_RW_OK(g_blk, V_HSZ + g_shift + g_blk->size)) return false;
#endif
    return ((uint8_t *)src)[-1] == g_shift;
}

V_CONTRACT
void *m_mem_new(size_t size, m_ref_dtor dtor)
V_REQUIRES(v_base_ok() && size <= V_MEM_MAX)
V_ASSIGNS(g_alloc_calls, g_last_alloc)
V_ENSURES(V_IMP(V_RET != NULL, V_ALIGNED(V_RET, V_ALIGN)))                                   /*@C10.aligned-for-any-size*/
V_ENSURES(V_IMP(V_RET != NULL, V_RW_OK(V_RET, size)))                                        /*@C10.requested-size-usable*/
V_ENSURES(V_IMP(V_RET != NULL, g_last_alloc != NULL && ((uint8_t *)V_RET)[-1] >= 1 && ((uint8_t *)V_RET)[-1] <= V_ALIGN
                && (uint8_t *)V_RET == (uint8_t *)g_last_alloc + V_HSZ + ((uint8_t *)V_RET)[-1]))  /*@C10.header-reachable-from-user-pointer*/
V_ENSURES(V_IMP(V_RET != NULL, ((mem_header_t *)g_last_alloc)->refs == 1))                    /*@C10.created-with-one-ref*/
V_ENSURES(V_IMP(V_RET != NULL, ((mem_header_t *)g_last_alloc)->size == size && ((mem_header_t *)g_last_alloc)->dtor == dtor))  /*@C10.size-and-dtor-recorded*/
V_ENSURES(V_IMP(V_OLD(g_oom_mask) == 0, V_RET != NULL))                                      /*@C10.new-succeeds-unless-oom*/
V_ENSURES(g_alloc_calls == V_OLD(g_alloc_calls) + 1)                                         /*@C10.one-allocation*/
;

V_CONTRACT
void *m_mem_ref(void *src)
V_REQUIRES(src == NULL || (v_blk_rep(src) && g_blk->refs >= 1 && g_blk->refs < SIZE_MAX))
V_ASSIGNS(src != NULL: g_blk->refs)
V_ENSURES(V_RET == src)                                                                      /*@C10.ref-returns-block*/
V_ENSURES(V_IMP(src != NULL, g_blk->refs == V_OLD(g_blk->refs) + 1))                         /*@C10.ref-adds-one*/
V_ENSURES(V_IMP(src != NULL, v_blk_rep(src)))                                                /*@C10.ref-keeps-block-valid*/
;

V_CONTRACT
void *m_mem_unref(void *src)
V_REQUIRES(v_base_ok())
V_REQUIRES(src == NULL || (v_blk_rep(src) && g_blk->refs >= 1 && (g_blk->dtor == NULL || g_blk->dtor == v_dtor)))
V_ASSIGNS(src != NULL: g_blk->refs; g_dtor_calls, g_dtor_arg, g_dtor_refs_seen, g_dtor_free_calls_seen, g_dtor_block_valid, g_free_calls, g_free_arg, g_free_arg0)
V_FREES(src != NULL: g_blk)
V_ENSURES(V_RET == NULL)                                                                     /*@C10.unref-returns-null*/
V_ENSURES(V_IMP(src == NULL, g_free_calls == V_OLD(g_free_calls) && g_dtor_calls == V_OLD(g_dtor_calls)))       /*@C10.null-tolerated*/
V_ENSURES(V_IMP(src != NULL && V_OLD(g_blk->refs) > 1,
                v_blk_rep(src) && g_blk->refs == V_OLD(g_blk->refs) - 1
                && g_free_calls == V_OLD(g_free_calls) && g_dtor_calls == V_OLD(g_dtor_calls)))                 /*@C10.alive-while-referenced*/
V_ENSURES(V_IMP(src != NULL && V_OLD(g_blk->refs) == 1,
                g_free_calls == V_OLD(g_free_calls) + 1 && g_free_arg == (void *)g_blk))                        /*@C10.released-exactly-once-to-allocator*/
V_ENSURES(V_IMP(src != NULL && V_OLD(g_blk->refs) == 1 && V_OLD(g_blk->dtor) != NULL,
                g_dtor_calls == V_OLD(g_dtor_calls) + 1 && g_dtor_arg == src
                && g_dtor_free_calls_seen == V_OLD(g_free_calls) && g_dtor_block_valid))                        /*@C10.dtor-exactly-once-on-valid-block-before-release*/
V_ENSURES(V_IMP(src != NULL && V_OLD(g_blk->dtor) == NULL, g_dtor_calls == V_OLD(g_dtor_calls)))                /*@C10.no-dtor-no-call*/
;

V_CONTRACT
void m_mem_unrefp(void **src)
V_REQUIRES(v_base_ok())
V_REQUIRES(src == NULL || V_RW_OK(src, sizeof(void *)))
V_REQUIRES(src == NULL || *src == NULL || (v_blk_rep(*src) && g_blk->refs >= 1 && (g_blk->dtor == NULL || g_blk->dtor == v_dtor)))
V_ASSIGNS(src != NULL: *src; src != NULL && *src != NULL: g_blk->refs; g_dtor_calls, g_dtor_arg, g_dtor_refs_seen, g_dtor_free_calls_seen, g_dtor_block_valid, g_free_calls, g_free_arg, g_free_arg0)
V_FREES(src != NULL && *src != NULL: g_blk)
V_ENSURES(V_IMP(src != NULL, *src == NULL))                                                  /*@C10.unrefp-clears-pointer*/
V_ENSURES(V_IMP(src != NULL && V_OLD(*src) != NULL && V_OLD(g_blk->refs) == 1, g_free_calls == V_OLD(g_free_calls) + 1 && g_free_arg == (void *)g_blk))  /*@C10.unrefp-releases-last*/
V_ENSURES(V_IMP(src != NULL && V_OLD(*src) != NULL && V_OLD(g_blk->refs) > 1, g_free_calls == V_OLD(g_free_calls) && g_blk->refs == V_OLD(g_blk->refs) - 1))  /*@C10.unrefp-drops-one*/
;

V_CONTRACT
size_t m_mem_size(void *src)
V_REQUIRES(src == NULL || v_blk_rep(src))
V_ASSIGNS()
V_ENSURES(V_RET == (src == NULL ? 0 : g_blk->size))                                          /*@C10.size-is-requested-size*/
;
