/* Contracts for descriptor hygiene (C20) and reset-on-stop (C13, C16, C17, C18): reset_module() in mod.c, poll_set_new_evt() in
 * poll/epoll.c (with create_priv_fd() of poll/cmn_linux.c inlined), src_priv_dtor() in src.c.
 * Ghost descriptor accounting: every descriptor the library opens is counted in g.fd_opened (and is >= V_LIBFD_BASE), every close in
 * g.close_calls / g.close_arg; the stubs of close() REQUIRE that the descriptor is currently open and owned by the closer. */
#define V_LIBFD_BASE 1000

V_CONTRACT
int v_close(int fd)
V_REQUIRES(fd >= 0 && fd == g_open_fd)                                 /*@C20.closes-only-an-open-descriptor-it-owns-and-only-once*/
V_ASSIGNS(g.close_calls, g.close_arg, g_open_fd)
V_ENSURES(V_RET == 0 && g.close_calls == V_OLD(g.close_calls) + 1 && g.close_arg == fd && g_open_fd == -1)
;
V_CONTRACT
int m_map_clear(m_map_t *m)
V_REQUIRES(m == NULL || v_map_ok_fn(m))
V_ASSIGNS(g.mapclear_calls; m != NULL: m->len)
V_ENSURES(g.mapclear_calls == V_OLD(g.mapclear_calls) + 1 && V_IMP(m != NULL, m->len == 0))
;
V_CONTRACT
int m_stack_clear(m_stack_t *s)
V_REQUIRES(s == NULL || V_S_OK(s))
V_ASSIGNS(s != NULL: s->len, s->top)
V_ENSURES(V_IMP(s != NULL, s->len == 0 && s->top == NULL))
;
V_CONTRACT
int m_queue_clear(m_queue_t *q)
V_REQUIRES(q == NULL || V_Q_OK(q))
V_ASSIGNS(q != NULL: q->len, q->first, q->last)
V_ENSURES(V_IMP(q != NULL, q->len == 0 && q->first == NULL && q->last == NULL))
;
V_CONTRACT
int m_list_clear(m_list_t *l)
V_REQUIRES(l == NULL || V_RW_OK(l, sizeof(struct _list)))
V_ASSIGNS(l != NULL: l->len)
V_ENSURES(V_IMP(l != NULL, l->len == 0))
;

#ifdef V_RESET_UNIT
V_CONTRACT
static void reset_module(m_mod_t *mod)
V_REQUIRES(v_base_ok() && mod == g_mod && V_RW_OK(g_mod, sizeof(m_mod_t)) && g_mod->recvs == g_recvs && V_S_OK(g_recvs) && g_mod->stashed == g_stashq && V_Q_OK(g_stashq)
           && g_mod->batch.events == g_batchq && V_Q_OK(g_batchq) && g_mod->bound_mods == g_bound && V_RW_OK(g_bound, sizeof(struct _list))
           && (g_mod->subscriptions == NULL || (g_mod->subscriptions == g_subs && v_map_ok_fn(g_subs))))
V_REQUIRES(g_mod->pubsub_fd[1] == -1 || (g_mod->pubsub_fd[1] >= 0 && g_mod->pubsub_fd[1] == g_open_fd))
V_ASSIGNS(g.close_calls, g.close_arg, g_open_fd, g.mapclear_calls, g_mod->pubsub_fd[0], g_mod->pubsub_fd[1], g_recvs->len, g_recvs->top, g_stashq->len, g_stashq->first, g_stashq->last,
          g_batchq->len, g_batchq->first, g_batchq->last, g_bound->len, g_mod->batch.len, g_mod->batch.timer, g_mod->tb.rate, g_mod->tb.burst, g_mod->tb.tokens, g_mod->tb.timer;
          g_mod->subscriptions != NULL: g_subs->len)
/* the write end of the module's message pipe is closed exactly once (if it is open), both ends are forgotten */
V_ENSURES(g.close_calls == V_OLD(g.close_calls) + (V_OLD(g_mod->pubsub_fd[1]) != -1 ? 1 : 0) && V_IMP(V_OLD(g_mod->pubsub_fd[1]) != -1, g.close_arg == V_OLD(g_mod->pubsub_fd[1]))
          && g_mod->pubsub_fd[1] == -1 && V_IMP(V_OLD(g_mod->pubsub_fd[1]) != -1, g_mod->pubsub_fd[0] == -1))                               /*@C20.pipe-write-end-closed-exactly-once-on-stop*/
V_ENSURES(g_recvs->len == 0)                                                                                                                /*@C17.handler-stack-emptied-on-stop*/
V_ENSURES(g_stashq->len == 0)                                                                                                               /*@C16.stash-discarded-on-stop*/
V_ENSURES(g_batchq->len == 0 && g_mod->batch.len == 0 && g_mod->batch.timer.ns == 0)                                                        /*@C13.accumulated-events-discarded-and-batching-reset-on-stop*/
V_ENSURES(g_mod->tb.rate == 0 && g_mod->tb.tokens == UINT64_MAX && g_mod->tb.burst == UINT64_MAX && g_mod->tb.timer.ns == 0)               /*@C18.stop-removes-the-limit*/
V_ENSURES(V_IMP(g_mod->subscriptions != NULL, g_subs->len == 0))                                                                            /*@C09.subscriptions-dropped-on-stop*/
;
#endif
