/* Contracts for recv_events() (Lib/core/ctx.c) -- property C03 (and C01: poison pill / handler only for RUNNING modules).
 * Environment of one poll batch: poll_wait() reports g_nfds ready descriptors; every one of them belongs to a source of the
 * focus module whose event is consumed successfully (the interesting case for "no event of the batch is dropped"); user code
 * runs inside push_evt() and may leave ANY value in errno. */

V_CONTRACT
int poll_wait(poll_priv_t *priv, const int timeout)
V_REQUIRES(priv == &g_ctx->ppriv)
V_ASSIGNS(g_errno, g.pw_calls)
V_ENSURES(V_RET == g_nfds && g_errno == g_pw_errno && g.pw_calls == V_OLD(g.pw_calls) + 1)
;
V_CONTRACT
ev_src_t *poll_recv(poll_priv_t *priv, const int idx)
V_REQUIRES(priv == &g_ctx->ppriv && idx >= 0 && idx < g_nfds)
V_ASSIGNS(g.recv_calls)
V_ENSURES(__CPROVER_pointer_equals(V_RET, g_psrc) && g.recv_calls == V_OLD(g.recv_calls) + 1)
;
V_CONTRACT
evt_priv_t *new_evt(ev_src_t *src)
V_REQUIRES(src == g_psrc)
V_ASSIGNS(g.newevt_calls)
V_ENSURES(__CPROVER_is_fresh(V_RET, sizeof(evt_priv_t)) && V_RET->src == src && V_RET->evt.type == g_psrc->type && V_RET->evt.fd_evt == NULL
          && g.newevt_calls == V_OLD(g.newevt_calls) + 1)
;
/* the source's process callback: consumes the kernel event and fills the typed event; it does not fail here and, like the
 * real ones on success, does not touch errno */
V_CONTRACT
ev_src_t *v_process(ev_src_t *this, m_ctx_t *c, int idx, evt_priv_t *evt)
V_REQUIRES(this == g_psrc && c == g_ctx && evt != NULL && V_RW_OK(evt, sizeof(evt_priv_t)))
V_ASSIGNS(evt->evt.fd_evt, g.process_calls)
V_ENSURES(__CPROVER_pointer_equals(V_RET, g_psrc) && evt->evt.fd_evt == (m_evt_fd_t *)g_elem_obj && g.process_calls == V_OLD(g.process_calls) + 1)
;
/* push_evt(): hands the event to the module (contract proved in unit ctx.push_evt); user code runs in there: errno is havocked */
V_CONTRACT
static void push_evt(m_mod_t *mod, evt_priv_t *evt)
V_REQUIRES(mod == g_mod && evt != NULL)
V_REQUIRES(g_mod->state == M_MOD_RUNNING)                                                                                                   /*@C01.handler-only-for-running-module*/
V_ASSIGNS(g_errno, g.pushevt_calls, g_mod->state, g_ctx->stats.running_modules, g_ctx->quit, g_ctx->quit_code)
V_ENSURES(g.pushevt_calls == V_OLD(g.pushevt_calls) + 1 && v_state_valid(g_mod->state) && g_ctx->quit == V_OLD(g_ctx->quit) && g_ctx->quit_code == V_OLD(g_ctx->quit_code))
;
V_CONTRACT
int m_map_iterate(const m_map_t *m, m_map_cb fn, void *userptr)
V_REQUIRES(m == g_modules)
V_ASSIGNS(g.iterate_calls)
V_ENSURES(g.iterate_calls == V_OLD(g.iterate_calls) + 1)
;

V_CONTRACT
static int recv_events(m_ctx_t *c, int timeout)
V_REQUIRES(v_base_ok() && c == g_ctx && V_RW_OK(g_ctx, sizeof(m_ctx_t)) && g_ctx->modules == g_modules && V_RW_OK(g_mod, sizeof(m_mod_t)) && g_mod->ctx == g_ctx)
V_REQUIRES(g_nfds >= -1 && g_nfds <= 1000000 && g_psrc != NULL && V_RW_OK(g_psrc, sizeof(ev_src_t)) && g_psrc->mod == g_mod && g_psrc->process == v_process
           && !(g_psrc->flags & M_SRC_ONESHOT) && g_psrc->type == M_SRC_TYPE_FD && g_mod->name != NULL)
V_REQUIRES(g_mod->state == M_MOD_RUNNING && g_ctx->stats.recv_msgs < ((uint64_t)1 << 60) && !g_ctx->quit)
V_REQUIRES(g_pe0 == g.pushevt_calls && g_pr0 == g.process_calls)
V_ASSIGNS(g_errno, g.pw_calls, g.recv_calls, g.newevt_calls, g.process_calls, g.pushevt_calls, g.iterate_calls, g.fetch_calls, g.unref_calls, g.unref_arg, g.unref_arg_prev,
          g_mod->state, g_ctx->stats.running_modules, g_ctx->quit, g_ctx->quit_code, g_ctx->stats.idle_time, g_ctx->stats.last_recv_time, g_ctx->stats.recv_msgs)
/* poll itself succeeded (or was merely interrupted): whatever errno the handlers leave behind, every ready source of the batch is
 * consumed and handed over exactly once, as long as the module stays RUNNING */
V_ENSURES(V_IMP(g_pw_errno == 0 && g_nfds >= 0 && g_mod->state == M_MOD_RUNNING, V_RET == g_nfds && g.pushevt_calls == g_pe0 + (size_t)g_nfds && g.process_calls == g_pr0 + (size_t)g_nfds))  /*@C03.no-event-of-the-batch-dropped-because-of-callback-errno*/
/* the loop is asked to quit only for a genuine polling failure, never because of errno left by user callbacks */
V_ENSURES(V_IMP(g_pw_errno == 0 || g_pw_errno == EINTR || g_pw_errno == EAGAIN, !g_ctx->quit && V_RET >= 0))                                 /*@C03.no-quit-from-stale-errno*/
V_ENSURES(V_IMP(g_pw_errno != 0 && g_pw_errno != EINTR && g_pw_errno != EAGAIN, g_ctx->quit && V_RET == -1 && g.pushevt_calls == g_pe0))    /*@C03.genuine-poll-failure-quits*/
;
