/* Abstract contracts of the callees of core functions (see stubs/vabs.h).  Each is used with
 * --replace-call-with-contract.  Allocation failure is not modelled in the core units (assumption, listed in evidence). */

/* validity predicates are functions, not macros: nested macro expansion over pointer-through-pointer arguments made
 * CBMC's expression simplifier blow up (symex never finished) */
static inline bool v_q_ok_fn(const struct _queue *q) { return q != NULL && V_RW_OK(q, sizeof(struct _queue)) && q->len < ((size_t)1 << 60); }
static inline bool v_s_ok_fn(const struct _stack *s) { return s != NULL && V_RW_OK(s, sizeof(struct _stack)) && s->len < ((size_t)1 << 60); }
#define V_Q_OK(q)   v_q_ok_fn(q)
#define V_S_OK(s)   v_s_ok_fn(s)

V_CONTRACT
void *m_mem_unref(void *src)
V_REQUIRES(1)
V_ASSIGNS(g.unref_calls, g.unref_arg, g.unref_arg_prev)
V_ENSURES(V_RET == NULL && g.unref_calls == V_OLD(g.unref_calls) + 1 && __CPROVER_pointer_equals(g.unref_arg, src) && g.unref_arg_prev == V_OLD(g.unref_arg))
;

V_CONTRACT
void *m_mem_ref(void *src)
V_REQUIRES(1)
V_ASSIGNS(g.ref_calls, g.ref_arg)
V_ENSURES(__CPROVER_pointer_equals(V_RET, src) && g.ref_calls == V_OLD(g.ref_calls) + 1 && __CPROVER_pointer_equals(g.ref_arg, src))
;

V_CONTRACT
ssize_t m_queue_len(const m_queue_t *q)
V_REQUIRES(q == NULL || V_Q_OK(q))
V_ASSIGNS()
V_ENSURES(V_RET == (q == NULL ? -EINVAL : (ssize_t)q->len))
;

V_CONTRACT
int m_queue_enqueue(m_queue_t *q, void *data)
V_REQUIRES(V_Q_OK(q) && data != NULL)
V_ASSIGNS(q->len, q->last, q->first, g.enq_calls, g.enq_arg, g.enq_q)
V_ENSURES(V_RET == 0 && q->len == V_OLD(q->len) + 1 && __CPROVER_pointer_equals(q->last, data) && (V_OLD(q->len) == 0 ? __CPROVER_pointer_equals(q->first, data) : q->first == V_OLD(q->first))
          && g.enq_calls == V_OLD(g.enq_calls) + 1 && __CPROVER_pointer_equals(g.enq_arg, data) && __CPROVER_pointer_equals(g.enq_q, q))
;

V_CONTRACT
m_queue_t *m_queue_new(m_queue_dtor fn)
V_REQUIRES(1)
V_ASSIGNS(g.qnew_calls, g.qnew_ret)
V_ENSURES(__CPROVER_is_fresh(V_RET, sizeof(struct _queue)) && V_RET->len == 0 && V_RET->first == NULL && V_RET->last == NULL
          && g.qnew_calls == V_OLD(g.qnew_calls) + 1 && __CPROVER_pointer_equals(g.qnew_ret, V_RET))
;

V_CONTRACT
int m_queue_free(m_queue_t **q)
V_REQUIRES(q != NULL && V_RW_OK(q, sizeof(*q)) && (*q == NULL || V_Q_OK(*q)))
V_ASSIGNS(*q, g.qfree_calls, g.qfree_arg, g.qfree_at_unref)
/* (g.qfree_at_unref: how many references had been dropped when the queue -- and with it its events and their sources -- was destroyed) */
V_ENSURES(V_RET == 0 && *q == NULL && g.qfree_calls == V_OLD(g.qfree_calls) + 1 && __CPROVER_pointer_equals(g.qfree_arg, V_OLD(*q)) && g.qfree_at_unref == g.unref_calls)
;

V_CONTRACT
void *m_stack_peek(const m_stack_t *s)
V_REQUIRES(s == NULL || V_S_OK(s))
V_ASSIGNS()
V_ENSURES((s == NULL || s->len == 0) ? V_RET == NULL : __CPROVER_pointer_equals(V_RET, s->top))
;

V_CONTRACT
ssize_t m_stack_len(const m_stack_t *s)
V_REQUIRES(s == NULL || V_S_OK(s))
V_ASSIGNS()
V_ENSURES(V_RET == (s == NULL ? -EINVAL : (ssize_t)s->len))
;

V_CONTRACT
int m_stack_push(m_stack_t *s, void *data)
V_REQUIRES(V_S_OK(s) && data != NULL)
V_ASSIGNS(s->len, s->top, g.push_calls, g.push_arg)
V_ENSURES(V_RET == 0 && s->len == V_OLD(s->len) + 1 && __CPROVER_pointer_equals(s->top, data) && g.push_calls == V_OLD(g.push_calls) + 1 && __CPROVER_pointer_equals(g.push_arg, data))
;

/* pop of the abstract stack: the new top is not tracked (only len), so it is left unconstrained except for emptiness */
V_CONTRACT
void *m_stack_pop(m_stack_t *s)
V_REQUIRES(s == NULL || V_S_OK(s))
V_ASSIGNS(s != NULL: s->len, s->top; g.pop_calls)
V_ENSURES(V_IMP(s == NULL || V_OLD(s->len) == 0, V_RET == NULL && g.pop_calls == V_OLD(g.pop_calls)))
V_ENSURES(V_IMP(s != NULL && V_OLD(s->len) == 0, s->len == 0 && __CPROVER_pointer_equals(s->top, V_OLD(s->top))))
V_ENSURES(V_IMP(s != NULL && V_OLD(s->len) > 0, __CPROVER_pointer_equals(V_RET, V_OLD(s->top)) && V_RET != NULL && s->len == V_OLD(s->len) - 1 && g.pop_calls == V_OLD(g.pop_calls) + 1
                && (s->len == 0 ? s->top == NULL : s->top != NULL)))
;

/* fetch_ms: clock read; writes the value and bumps the optional counter */
V_CONTRACT
void fetch_ms(uint64_t *val, uint64_t *ctr)
V_REQUIRES(val != NULL && V_RW_OK(val, sizeof(*val)) && (ctr == NULL || V_RW_OK(ctr, sizeof(*ctr))))
V_ASSIGNS(*val, g.fetch_calls; ctr != NULL: *ctr)
V_ENSURES(g.fetch_calls == V_OLD(g.fetch_calls) + 1)
;

/* the guard every module call starts with (M_MOD_ASSERT): module exists, is not a zombie, belongs to the calling thread's context */
#define V_G_MOD(mod)        ((mod) != NULL && !((mod)->state & M_MOD_ZOMBIE) && (mod)->ctx == g_mctx)
#define V_G_RUNNING(mod)    (V_G_MOD(mod) && ((mod)->state & M_MOD_RUNNING) != 0)

/* ---- other core files, as seen from a caller ------------------------------------------------------------------- */
/* m_ctx(): the calling thread's context, or NULL (none registered / current module denies context access); verified
 * against the real function in units/ctx_unit.c (h_m_ctx).  g_mctx is the ghost value it returns in this pre-state. */
#ifndef V_ENFORCE_M_CTX   /* (unit ctx.m_ctx proves the real m_ctx() against its concrete contract instead) */
V_CONTRACT
m_ctx_t *m_ctx(void)
V_REQUIRES(1)
V_ASSIGNS()
V_ENSURES(__CPROVER_pointer_equals(V_RET, g_mctx))
;
#endif

#ifndef V_OWN_M_MOD_IS    /* (unit ps.tell_subscribers counts the eligibility tests instead) */
V_CONTRACT
bool m_mod_is(const m_mod_t *mod, m_mod_states st)
V_REQUIRES(mod == NULL || V_R_OK(mod, sizeof(m_mod_t)))
V_ASSIGNS()
V_ENSURES(V_RET == (mod != NULL && (mod->state & st) != 0))
;
#endif

/* ---- abstract queue iterator -------------------------------------------------------------------------------------
 * A function under proof has at most one live iterator, so the abstract iterator is the ghost singleton *g_qit (a heap object made by the harness, since the code under proof may free it) (position
 * idx in queue q; removed = the element at idx was just removed).  Contracts over a global are cheap for the solver;
 * contracts that reached the queue through **itr made CBMC's symbolic execution blow up. */
static inline bool v_qit_ok(void) { return g_qit != NULL && V_RW_OK(g_qit, sizeof(struct _queue_itr)) && V_Q_OK(g_qit->q) && g_qit->idx < g_qit->q->len + (g_qit->removed ? 1 : 0) && g_qit->idx < ((size_t)1 << 60); }

V_CONTRACT
m_queue_itr_t *m_queue_itr_new(const m_queue_t *q)
V_REQUIRES((q == NULL || V_Q_OK(q)) && g_qit != NULL && V_RW_OK(g_qit, sizeof(struct _queue_itr)))
V_ASSIGNS(g_qit->q, g_qit->idx, g_qit->removed)
V_ENSURES(V_IMP(q == NULL || q->len == 0, V_RET == NULL))
V_ENSURES(V_IMP(q != NULL && q->len > 0, __CPROVER_pointer_equals(V_RET, g_qit) && __CPROVER_pointer_equals(g_qit->q, (m_queue_t *)q) && g_qit->idx == 0 && !g_qit->removed))
;

V_CONTRACT
int m_queue_itr_next(m_queue_itr_t **itr)
V_REQUIRES(itr != NULL && V_RW_OK(itr, sizeof(*itr)) && *itr == g_qit && v_qit_ok())
V_ASSIGNS(*itr, g_qit->idx, g_qit->removed)
V_ENSURES(V_RET == 0 && !g_qit->removed && g_qit->idx == V_OLD(g_qit->idx) + (V_OLD(g_qit->removed) ? 0 : 1))
V_ENSURES(g_qit->idx >= g_qit->q->len ? *itr == NULL : __CPROVER_pointer_equals(*itr, g_qit))
;

V_CONTRACT
void *m_queue_itr_get_data(const m_queue_itr_t *itr)
V_REQUIRES(itr == g_qit && v_qit_ok() && !g_qit->removed)
V_ASSIGNS(g.itr_get_calls, g.itr_nonhead, g.itr_elem)
V_ENSURES(__CPROVER_pointer_equals(V_RET, (void *)&g_elem_obj) && __CPROVER_pointer_equals(g.itr_elem, (void *)&g_elem_obj) && g.itr_get_calls == V_OLD(g.itr_get_calls) + 1 && g.itr_nonhead == (V_OLD(g.itr_nonhead) || g_qit->idx != 0))
;

V_CONTRACT
int m_queue_itr_remove(m_queue_itr_t *itr)
V_REQUIRES(itr == g_qit && v_qit_ok() && !g_qit->removed)
V_ASSIGNS(g_qit->removed, g_qit->q->len, g_qit->q->first, g_qit->q->last, g.itr_rm_calls, g.itr_nonhead)
V_ENSURES(V_RET == 0 && g_qit->removed && g_qit->q->len == V_OLD(g_qit->q->len) - 1 && g.itr_rm_calls == V_OLD(g.itr_rm_calls) + 1
          && g.itr_nonhead == (V_OLD(g.itr_nonhead) || g_qit->idx != 0))
;

/* ---- abstract map / list as far as mod.c needs them --------------------------------------------------------------- */
static inline bool v_map_ok_fn(const struct _map *m) { return m != NULL && V_RW_OK(m, sizeof(struct _map)) && m->len < ((size_t)1 << 60); }
#ifndef V_OWN_M_MAP_REMOVE
V_CONTRACT
int m_map_remove(m_map_t *m, const char *key)
V_REQUIRES(v_map_ok_fn(m) && key != NULL)
V_ASSIGNS(m->len, g.maprm_calls)
V_ENSURES(V_RET == g_maprm_ret && g.maprm_calls == V_OLD(g.maprm_calls) + 1 && m->len == V_OLD(m->len) - ((V_RET == 0) ? 1 : 0))
;
#endif
V_CONTRACT
ssize_t m_map_len(const m_map_t *m)
V_REQUIRES(m == NULL || v_map_ok_fn(m))
V_ASSIGNS()
V_ENSURES(V_RET == (m == NULL ? -EINVAL : (ssize_t)m->len))
;
V_CONTRACT
void m_mem_unrefp(void **src)
V_REQUIRES(src != NULL && V_RW_OK(src, sizeof(*src)))
V_ASSIGNS(*src, g.unrefp_calls)
V_ENSURES(*src == NULL && g.unrefp_calls == V_OLD(g.unrefp_calls) + 1)
;
V_CONTRACT
int fs_cleanup(m_mod_t *mod)
V_REQUIRES(1)
V_ASSIGNS(g.fscleanup_calls)
V_ENSURES(g.fscleanup_calls == V_OLD(g.fscleanup_calls) + 1)
;
#ifndef V_CTXAPI_UNIT
V_CONTRACT
int m_ctx_deregister(void)
V_REQUIRES(1)
V_ASSIGNS(g.ctxdereg_calls)
V_ENSURES(V_RET == g_ctxdereg_ret && g.ctxdereg_calls == V_OLD(g.ctxdereg_calls) + 1)
;
#endif
/* modules bound to the focus module are not modelled: the units assume an empty bound list, so iteration never starts */
V_CONTRACT
m_list_itr_t *m_list_itr_new(const m_list_t *l)
V_REQUIRES(l != NULL && V_R_OK(l, sizeof(struct _list)) && l->len == 0)
V_ASSIGNS()
V_ENSURES(V_RET == NULL)
;
#ifndef V_MSRCS_UNIT
V_CONTRACT
m_bst_itr_t *m_bst_itr_new(const m_bst_t *l)
V_REQUIRES(l != NULL && V_R_OK(l, sizeof(struct _bst)) && l->len == 0)
V_ASSIGNS()
V_ENSURES(V_RET == NULL)
;
#endif
