/* Contracts for Lib/thpool/thpool.c (C06: lock discipline, per-step accounting, shutdown).  Ghost: g_lock_held = this thread holds
 * pool->lock.  Shared fields (behind the mutex): g_pool->shutdown, g_tasks->len/first/last, g_threads->len. */
#define V_POOL_OK  (g_pool != NULL && V_RW_OK(g_pool, sizeof(m_thpool_t)) && g_pool->tasks == g_tasks && V_Q_OK(g_tasks) && g_pool->threads == g_threads \
                    && g_threads != NULL && V_RW_OK(g_threads, sizeof(struct _list)) && g_threads->len < 256 && g_pool->shutdown <= SHUTDOWN_WAITALL)
#define V_SHARED   g_pool->shutdown, g_tasks->len, g_tasks->first, g_tasks->last, g_threads->len

V_CONTRACT
int v_mutex_lock(pthread_mutex_t *m)
V_REQUIRES(m == &g_pool->lock && !g_lock_held)                                               /*@C06.never-locks-a-mutex-it-already-holds*/
V_ASSIGNS(g_lock_held, g.lock_calls, V_SHARED)
V_ENSURES(V_RET == g_lock_ret && g.lock_calls == V_OLD(g.lock_calls) + 1 && g_lock_held == (V_RET == 0) && V_Q_OK(g_tasks) && g_threads->len < 256 && g_pool->shutdown <= SHUTDOWN_WAITALL
          && (g_pool->shutdown >= V_OLD(g_pool->shutdown)))
;
V_CONTRACT
int v_mutex_unlock(pthread_mutex_t *m)
V_REQUIRES(m == &g_pool->lock && g_lock_held)                                                /*@C06.unlocks-only-a-mutex-it-holds*/
V_ASSIGNS(g_lock_held, g.unlock_calls)
V_ENSURES(V_RET == 0 && !g_lock_held && g.unlock_calls == V_OLD(g.unlock_calls) + 1)
;
V_CONTRACT
int v_cond_wait(pthread_cond_t *c, pthread_mutex_t *m)
V_REQUIRES(c == &g_pool->notify && m == &g_pool->lock && g_lock_held)                        /*@C06.waits-on-the-condition-holding-the-mutex*/
V_ASSIGNS(g.wait_calls, V_SHARED)
V_ENSURES(g.wait_calls == V_OLD(g.wait_calls) + 1 && g_lock_held && V_Q_OK(g_tasks) && g_threads->len < 256 && g_pool->shutdown <= SHUTDOWN_WAITALL)
;
V_CONTRACT
int v_cond_signal(pthread_cond_t *c)
V_REQUIRES(c == &g_pool->notify && g_lock_held)                                              /*@C06.signals-under-the-mutex*/
V_ASSIGNS(g.signal_calls)
V_ENSURES(V_RET == 0 && g.signal_calls == V_OLD(g.signal_calls) + 1)
;
V_CONTRACT
int v_cond_broadcast(pthread_cond_t *c)
V_REQUIRES(c == &g_pool->notify && g_lock_held)                                              /*@C06.signals-under-the-mutex*/
V_ASSIGNS(g.bcast_calls)
V_ENSURES(V_RET == 0 && g.bcast_calls == V_OLD(g.bcast_calls) + 1)
;
V_CONTRACT
ssize_t m_queue_len(const m_queue_t *q)
V_REQUIRES(q == g_tasks && V_Q_OK(g_tasks) && g_lock_held)                                   /*@C06.queue-touched-only-under-the-mutex*/
V_ASSIGNS()
V_ENSURES(V_RET == (ssize_t)g_tasks->len)
;
V_CONTRACT
ssize_t m_list_len(const m_list_t *l)
V_REQUIRES(l != NULL && V_R_OK(l, sizeof(struct _list)))
V_ASSIGNS()
V_ENSURES(V_RET == (ssize_t)l->len)
;
#if !defined(V_POOL_SPAWN) && !defined(V_POOL_NEW)     /* (as a callee; unit thpool.add_threads proves the real function against the stronger contract below) */
V_CONTRACT
static int add_threads(m_thpool_t *pool, int num)
V_REQUIRES(pool == g_pool && num >= 0)
V_ASSIGNS(g.addthr_calls, g.addthr_num, g_threads->len)
V_ENSURES(V_RET == g_addthr_ret && g.addthr_calls == V_OLD(g.addthr_calls) + 1 && g.addthr_num == num
          && g_threads->len <= V_OLD(g_threads->len) + (size_t)num && V_IMP(V_RET == 0, g_threads->len == V_OLD(g_threads->len) + (size_t)num))
;

#endif
#ifdef V_POOL_SPAWN
V_CONTRACT int v_attr_init(pthread_attr_t *a) V_REQUIRES(a != NULL) V_ASSIGNS(*a) V_ENSURES(V_RET == 0);
V_CONTRACT int v_attr_destroy(pthread_attr_t *a) V_REQUIRES(a != NULL) V_ASSIGNS() V_ENSURES(V_RET == 0);
V_CONTRACT int v_attr_setdetachstate(pthread_attr_t *a, int d) V_REQUIRES(a != NULL && d == PTHREAD_CREATE_DETACHED) V_ASSIGNS(g.detach_calls) V_ENSURES(V_RET == 0 && g.detach_calls == V_OLD(g.detach_calls) + 1);
/* thread creation: the k-th attempt of this call fails iff k == g_fail_at */
V_CONTRACT
int v_thread_create(pthread_t *t, const pthread_attr_t *a, void *(*f)(void *), void *arg)
V_REQUIRES(t != NULL)                                                                                      /*@C04.no-thread-created-on-a-missing-slot*/
V_REQUIRES(V_RW_OK(t, sizeof(pthread_t)) && a != NULL)
V_REQUIRES(f == thpool_thread && arg == (void *)g_pool)                                                   /*@C06.every-worker-runs-the-pool-loop-of-this-pool*/
V_ASSIGNS(*t, g.create_calls)
V_ENSURES(g.create_calls == V_OLD(g.create_calls) + 1 && V_RET == ((V_OLD(g.create_calls) - g_c0 == g_fail_at) ? g_create_err : 0))
;
V_CONTRACT
int m_list_insert(m_list_t *l, void *data)
V_REQUIRES(l == g_threads && data != NULL)
V_ASSIGNS(g_threads->len, g.linsert_calls)
V_ENSURES(V_RET == 0 && g_threads->len == V_OLD(g_threads->len) + 1 && g.linsert_calls == V_OLD(g.linsert_calls) + 1)
;
#define V_MIN2(a, b)    ((a) < (b) ? (a) : (b))
#define V_FIRSTFAIL     V_MIN2(g_fail_at, g_oom_at)                                       /* first attempt that fails: no slot for it (g_oom_at), or its creation is refused (g_fail_at) */
#define V_SPAWNED(num)  V_MIN2((size_t)(num), V_FIRSTFAIL)                                /* threads that come to life: all of them, or those before the failing attempt */
#define V_OOMF(num)     ((size_t)(num) > g_oom_at && g_oom_at <= g_fail_at)               /* the call ends on a missing slot */
#define V_CRF(num)      ((size_t)(num) > g_fail_at && g_fail_at < g_oom_at)               /* the call ends on a refused creation */
V_CONTRACT
static int add_threads(m_thpool_t *pool, int num)
V_REQUIRES(pool == g_pool && V_POOL_OK && num >= 0 && num <= 255 && g_threads->len + (size_t)num < 256 && g_create_err > 0 && g_create_err < 200
           && g_c0 == g.create_calls && g_l0 == g_threads->len && g_fc0 == g_free_calls && g_ac0 == g_alloc_calls && g_oom_mask == 0)
V_ASSIGNS(g_thslot, g.create_calls, g.linsert_calls, g.detach_calls, g_threads->len, g_alloc_calls, g_last_alloc, g_free_calls, g_free_arg, g_free_arg0)
/* every thread that was created is recorded in the pool's thread list exactly once (so that free can wait for it); creation stops at the first failure -- a missing slot (ENOMEM, no thread
 * is created on it) or a refused creation (its code; the slot is given back) -- which leaves no record; otherwise the result is 0 */
V_ENSURES(V_RET == (V_OOMF(num) ? ENOMEM : V_CRF(num) ? g_create_err : 0) && g_threads->len == g_l0 + V_SPAWNED(num) && g.linsert_calls == V_OLD(g.linsert_calls) + V_SPAWNED(num)
          && g.create_calls == g_c0 + V_SPAWNED(num) + (V_CRF(num) ? 1 : 0))                                                                  /*@C06.every-created-worker-is-recorded-exactly-once*/
V_ENSURES(g_alloc_calls - g_ac0 == V_SPAWNED(num) + ((V_CRF(num) || V_OOMF(num)) ? 1 : 0) && g_free_calls - g_fc0 == (V_CRF(num) ? 1 : 0))     /*@C04.thread-slot-released-iff-its-creation-failed*/
V_ENSURES(g.detach_calls == V_OLD(g.detach_calls) + ((g_pool->flags & M_THPOOL_DETACHED) ? 1 : 0))
;
#endif
#ifdef V_POOL_ADD
V_CONTRACT
int m_thpool_add(m_thpool_t *pool, m_thpool_task task, void *arg)
V_REQUIRES(v_base_ok() && (pool == NULL || (pool == g_pool && V_POOL_OK)) && !g_lock_held && g_tasks->len < ((size_t)1 << 58))
V_ASSIGNS(g_lock_held, g.lock_calls, g.unlock_calls, g.signal_calls, g.addthr_calls, g.addthr_num, g.enq_calls, g.enq_arg, g.enq_q, V_SHARED, g_alloc_calls, g_last_alloc)
/* whatever happens -- refusal, failed lock, failed thread creation, success -- the mutex is not held when the call returns */
V_ENSURES(!g_lock_held)                                                                                                                     /*@C06.mutex-released-on-every-path*/
V_ENSURES(V_IMP(pool == NULL || task == NULL, V_RET == -EINVAL && g.lock_calls == V_OLD(g.lock_calls)))
/* accepted: exactly one task record carrying (fn, arg) is appended to the queue, and one waiter is signalled, all under the mutex */
V_ENSURES(V_IMP(V_RET == 0 && pool != NULL && task != NULL, g.enq_calls == V_OLD(g.enq_calls) + 1 && __CPROVER_pointer_equals(g.enq_q, g_tasks) && __CPROVER_pointer_equals(g.enq_arg, g_last_alloc
               ) && ((thpool_task_t *)g_last_alloc)->fn == task && ((thpool_task_t *)g_last_alloc)->arg == arg && g.signal_calls == V_OLD(g.signal_calls) + 1))  /*@C06.accepted-task-enqueued-exactly-once-with-its-argument*/
V_ENSURES(V_IMP(V_RET != 0, g.enq_calls == V_OLD(g.enq_calls)))                                                                              /*@C06.refused-task-is-not-enqueued*/
/* lazy pools never go beyond the configured number of threads */
V_ENSURES(V_IMP(g.addthr_calls > V_OLD(g.addthr_calls), (g_pool->flags & M_THPOOL_LAZY) && g.addthr_num == 1 && g.addthr_calls == V_OLD(g.addthr_calls) + 1))
V_ENSURES(V_IMP(g.addthr_calls > V_OLD(g.addthr_calls) && g_addthr_ret == 0, g_threads->len <= g_pool->max_threads))                         /*@C06.never-more-threads-than-configured*/
/* a lazy pool that had to spawn a worker for this task and could not (whatever the error code) refuses the task: otherwise a task could be accepted by a pool without any worker,
 * never run, and a wait-all free would return before it has run */
V_ENSURES(V_IMP(g.addthr_calls > V_OLD(g.addthr_calls) && g_addthr_ret != 0, V_RET == g_addthr_ret && g.enq_calls == V_OLD(g.enq_calls)))     /*@C06.task-refused-when-its-worker-cannot-be-spawned*/
;
#endif

#ifdef V_POOL_LEN
V_CONTRACT
ssize_t m_thpool_length(m_thpool_t *pool)
V_REQUIRES(v_base_ok() && (pool == NULL || (pool == g_pool && V_POOL_OK)) && !g_lock_held)
V_ASSIGNS(g_lock_held, g.lock_calls, g.unlock_calls, V_SHARED)
V_ENSURES(!g_lock_held)                                                                                                                     /*@C06.mutex-released-on-every-path*/
V_ENSURES(V_IMP(pool != NULL && g_lock_ret == 0 && V_OLD(g_pool->shutdown) == SHUTDOWN_NO && (g_pool->init_state & INITED_STARTED), g.lock_calls == V_OLD(g.lock_calls) + 1 && g.unlock_calls == V_OLD(g.unlock_calls) + 1 && V_RET == (ssize_t)g_tasks->len))  /*@C06.queue-read-under-the-mutex*/
;
#endif

#ifdef V_POOL_WORKER
/* the user's task: runs OUTSIDE the mutex */
V_CONTRACT
void *v_task(void *arg)
V_REQUIRES(!g_lock_held && arg == g_task_arg)                                                /*@C06.task-runs-outside-the-mutex-with-its-argument*/
V_ASSIGNS(g.task_calls)
V_ENSURES(g.task_calls == V_OLD(g.task_calls) + 1)
;
V_CONTRACT
void *m_queue_dequeue(m_queue_t *q)
V_REQUIRES(q == g_tasks && V_Q_OK(g_tasks) && g_lock_held && g_tasks->len > 0)               /*@C06.queue-touched-only-under-the-mutex*/
V_ASSIGNS(g_tasks->len, g_tasks->first, g_tasks->last, g.deq_calls)
/* every dequeue hands out a distinct record (fresh object) carrying the user's function and argument */
V_ENSURES(__CPROVER_is_fresh(V_RET, sizeof(thpool_task_t)) && ((thpool_task_t *)V_RET)->fn == v_task && ((thpool_task_t *)V_RET)->arg == g_task_arg
          && g_tasks->len == V_OLD(g_tasks->len) - 1 && g.deq_calls == V_OLD(g.deq_calls) + 1)
;

#endif

#ifdef V_POOL_WAIT
/* abstract iterator over the thread list (ghost singleton *g_lit: position idx in list l) */
V_CONTRACT
m_list_itr_t *m_list_itr_new(const m_list_t *l)
V_REQUIRES(l == g_threads && g_lit != NULL && V_RW_OK(g_lit, sizeof(struct _list_itr)))
V_ASSIGNS(g_lit->l, g_lit->idx)
V_ENSURES(g_threads->len == 0 ? V_RET == NULL : (__CPROVER_pointer_equals(V_RET, g_lit) && g_lit->l == g_threads && g_lit->idx == 0))
;
V_CONTRACT
int m_list_itr_next(m_list_itr_t **itr)
V_REQUIRES(itr != NULL && V_RW_OK(itr, sizeof(*itr)) && *itr == g_lit && g_lit->l == g_threads && g_lit->idx < g_threads->len)
V_ASSIGNS(*itr, g_lit->idx)
V_ENSURES(V_RET == 0 && g_lit->idx == V_OLD(g_lit->idx) + 1)
V_ENSURES(g_lit->idx >= g_threads->len ? *itr == NULL : __CPROVER_pointer_equals(*itr, g_lit))
;
V_CONTRACT
void *m_list_itr_get_data(const m_list_itr_t *itr)
V_REQUIRES(itr == g_lit && g_lit->l == g_threads && g_lit->idx < g_threads->len)
V_ASSIGNS()
V_ENSURES(__CPROVER_pointer_equals(V_RET, (void *)&g_thobj))
;
V_CONTRACT
int v_thread_join(pthread_t t, void **r)
V_REQUIRES(!g_lock_held)                                                                     /*@C06.joins-workers-without-holding-the-mutex*/
V_ASSIGNS(g.join_calls)
V_ENSURES(V_RET == 0 && g.join_calls == V_OLD(g.join_calls) + 1)
;
V_CONTRACT
static int wait_pool(m_thpool_t *pool, thpool_shutdown_t shutdown)
V_REQUIRES(v_base_ok() && pool == g_pool && V_POOL_OK && !g_lock_held && (shutdown == SHUTDOWN_WAITCURR || shutdown == SHUTDOWN_WAITALL) && g_j0 == g.join_calls
           && g_lit != NULL && V_RW_OK(g_lit, sizeof(struct _list_itr)))
V_ASSIGNS(g_lock_held, g.lock_calls, g.unlock_calls, g.bcast_calls, g.join_calls, V_SHARED, g_pool->init_state, g_lit->l, g_lit->idx)
V_ENSURES(!g_lock_held)                                                                                                                     /*@C06.mutex-released-on-every-path*/
V_ENSURES(V_IMP(g_lock_ret != 0, V_RET == g_lock_ret && g.join_calls == g_j0))
/* the shutdown request is published under the mutex and every worker is woken up */
V_ENSURES(V_IMP(g_lock_ret == 0, g_pool->shutdown == shutdown && g.bcast_calls == V_OLD(g.bcast_calls) + 1 && g.unlock_calls == V_OLD(g.unlock_calls) + 1))  /*@C06.shutdown-published-under-the-mutex-and-broadcast*/
/* free returns only after every worker thread has finished: each thread of the pool is joined -- for every pool flavour */
V_ENSURES(V_IMP(g_lock_ret == 0, g.join_calls == g_j0 + g_threads->len))                                                                     /*@C06.every-worker-joined-before-free-returns*/
V_ENSURES(V_IMP(g_lock_ret == 0 && V_RET == 0, !(g_pool->init_state & INITED_STARTED)))
;
#endif

#if defined(V_POOL_FREE) || defined(V_POOL_CLEAR)
/* teardown (m_thpool_free) and m_thpool_clear */
V_CONTRACT
static int wait_pool(m_thpool_t *pool, thpool_shutdown_t shutdown)
V_REQUIRES(pool == g_pool && !g_lock_held)
V_REQUIRES(g.conddestroy_calls == 0 && g.mutexdestroy_calls == 0 && g.qfree_calls == 0 && g.lfree_calls == 0)               /*@C06.workers-awaited-before-anything-they-use-is-destroyed*/
V_ASSIGNS(g.waitpool_calls, g.waitpool_mode)
V_ENSURES(V_RET == g_wait_ret && g.waitpool_calls == V_OLD(g.waitpool_calls) + 1 && g.waitpool_mode == (int)shutdown)
;
V_CONTRACT int v_cond_destroy(pthread_cond_t *c) V_REQUIRES(c == &g_pool->notify) V_ASSIGNS(g.conddestroy_calls) V_ENSURES(V_RET == 0 && g.conddestroy_calls == V_OLD(g.conddestroy_calls) + 1);
V_CONTRACT int v_mutex_destroy(pthread_mutex_t *m) V_REQUIRES(m == &g_pool->lock && !g_lock_held) V_ASSIGNS(g.mutexdestroy_calls) V_ENSURES(V_RET == 0 && g.mutexdestroy_calls == V_OLD(g.mutexdestroy_calls) + 1);
V_CONTRACT int m_queue_free(m_queue_t **q) V_REQUIRES(q == &g_pool->tasks) V_ASSIGNS(g.qfree_calls, g_pool->tasks) V_ENSURES(V_RET == 0 && g.qfree_calls == V_OLD(g.qfree_calls) + 1 && g_pool->tasks == NULL);
V_CONTRACT int m_list_free(m_list_t **l) V_REQUIRES(l == &g_pool->threads) V_ASSIGNS(g.lfree_calls, g_pool->threads) V_ENSURES(V_RET == 0 && g.lfree_calls == V_OLD(g.lfree_calls) + 1 && g_pool->threads == NULL);
V_CONTRACT
int m_queue_clear(m_queue_t *q)
V_REQUIRES(q == g_tasks && V_Q_OK(g_tasks) && g_lock_held)                                                                   /*@C06.queue-touched-only-under-the-mutex*/
V_ASSIGNS(g_tasks->len, g_tasks->first, g_tasks->last, g.qclear_calls)
V_ENSURES(V_RET == 0 && g_tasks->len == 0 && g.qclear_calls == V_OLD(g.qclear_calls) + 1)
;
#endif
#ifdef V_POOL_FREE
#define V_STAGES_OK(s) ((s) == 0 || (s) == 0x01 || (s) == 0x03 || (s) == 0x07 || (s) == 0x0f || (s) == 0x1f)
V_CONTRACT
int m_thpool_free(m_thpool_t **pool, bool wait_all)
V_REQUIRES(v_base_ok() && (pool == NULL || (pool == &g_poolref && (g_poolref == NULL || (g_poolref == g_pool && V_RW_OK(g_pool, sizeof(m_thpool_t)) && V_STAGES_OK(g_pool->init_state))))) && !g_lock_held)
V_REQUIRES(g.conddestroy_calls == 0 && g.mutexdestroy_calls == 0 && g.qfree_calls == 0 && g.lfree_calls == 0 && g.waitpool_calls == 0 && g_fc0 == g_free_calls)
V_ASSIGNS(pool != NULL && g_poolref != NULL: g.waitpool_calls, g.waitpool_mode, g.conddestroy_calls, g.mutexdestroy_calls, g.qfree_calls, g.lfree_calls, g_pool->tasks, g_pool->threads,
          g_free_calls, g_free_arg, g_free_arg0, g_poolref)
V_FREES(g_pool)
V_ENSURES(V_IMP(pool == NULL || V_OLD(g_poolref) == NULL, V_RET == -EINVAL && g_free_calls == g_fc0))
/* a started pool is waited for first -- for everything queued when asked to wait for all, otherwise for the tasks in progress -- and only then are the condition
 * variable, the mutex, the task queue and the thread list given up (the order is the precondition of the wait_pool contract above); each stage that was
 * initialised is undone exactly once, stages that were never reached are left alone */
V_ENSURES(V_IMP(pool != NULL && V_OLD(g_poolref) != NULL, g.waitpool_calls == ((V_OLD(g_pool->init_state) & INITED_STARTED) ? 1 : 0)
                && V_IMP(V_OLD(g_pool->init_state) & INITED_STARTED, g.waitpool_mode == (wait_all ? SHUTDOWN_WAITALL : SHUTDOWN_WAITCURR))))                 /*@C06.free-waits-for-all-or-for-current-tasks-as-asked*/
V_ENSURES(V_IMP(pool != NULL && V_OLD(g_poolref) != NULL && (g_wait_ret == 0 || !(V_OLD(g_pool->init_state) & INITED_STARTED)),
                g.conddestroy_calls == ((V_OLD(g_pool->init_state) & INITED_COND) ? 1 : 0) && g.mutexdestroy_calls == ((V_OLD(g_pool->init_state) & INITED_MUT) ? 1 : 0)
                && g.qfree_calls == ((V_OLD(g_pool->init_state) & INITED_TASKS) ? 1 : 0) && g.lfree_calls == ((V_OLD(g_pool->init_state) & INITED_THREADS) ? 1 : 0)))   /*@C06.each-initialised-stage-undone-exactly-once*/
V_ENSURES(V_IMP(pool != NULL && V_OLD(g_poolref) != NULL, V_RET == 0 && g_poolref == NULL && g_free_calls == g_fc0 + 1 && g_free_arg == (void *)V_OLD(g_poolref)))  /*@C04.pool-record-released-once-and-handle-cleared*/
;
#endif
#ifdef V_POOL_CLEAR
V_CONTRACT
ssize_t m_thpool_clear(m_thpool_t *pool)
V_REQUIRES(v_base_ok() && (pool == NULL || (pool == g_pool && V_POOL_OK)) && !g_lock_held)
V_ASSIGNS(pool != NULL: g_lock_held, g.lock_calls, g.unlock_calls, V_SHARED, g.qclear_calls)
V_ENSURES(!g_lock_held)                                                                                                      /*@C06.mutex-released-on-every-path*/
V_ENSURES(V_IMP(pool == NULL, V_RET == -EINVAL) && V_IMP(pool != NULL && (V_OLD(g_pool->shutdown) != SHUTDOWN_NO || !(g_pool->init_state & INITED_STARTED)), V_RET == -EPERM && g.lock_calls == V_OLD(g.lock_calls)))
/* pending (not yet started) tasks are dropped under the mutex, in one step: none of them can be picked up by a worker half-way */
V_ENSURES(V_IMP(pool != NULL && V_OLD(g_pool->shutdown) == SHUTDOWN_NO && (g_pool->init_state & INITED_STARTED) && g_lock_ret == 0, g.qclear_calls == V_OLD(g.qclear_calls) + 1 && g_tasks->len == 0
                && g.unlock_calls == V_OLD(g.unlock_calls) + 1))                                                                /*@C06.pending-tasks-dropped-under-the-mutex*/
V_ENSURES(V_IMP(pool != NULL && V_OLD(g_pool->shutdown) == SHUTDOWN_NO && (g_pool->init_state & INITED_STARTED) && g_lock_ret != 0, V_RET == g_lock_ret && g.qclear_calls == V_OLD(g.qclear_calls)))
;
#endif

#ifdef V_POOL_NEW
/* m_thpool_new(): staged construction; a pool either comes back fully built (every stage recorded, threads spawned unless lazy) or not at all */
V_CONTRACT m_list_t *m_list_new(m_list_cmp c, m_list_dtor fn) V_REQUIRES(1) V_ASSIGNS(g.lnew_calls) V_ENSURES(g.lnew_calls == V_OLD(g.lnew_calls) + 1 && (g_fail_stage == 1 ? V_RET == NULL : __CPROVER_pointer_equals(V_RET, g_threads)));
V_CONTRACT m_queue_t *m_queue_new(m_queue_dtor fn) V_REQUIRES(1) V_ASSIGNS(g.qnew_calls) V_ENSURES(g.qnew_calls == V_OLD(g.qnew_calls) + 1 && (g_fail_stage == 2 ? V_RET == NULL : __CPROVER_pointer_equals(V_RET, g_tasks)));
V_CONTRACT int v_mutex_init(pthread_mutex_t *m, const pthread_mutexattr_t *a) V_REQUIRES(m != NULL) V_ASSIGNS(*m, g.minit_calls) V_ENSURES(g.minit_calls == V_OLD(g.minit_calls) + 1 && V_RET == (g_fail_stage == 3 ? 11 : 0));
V_CONTRACT int v_cond_init(pthread_cond_t *c, const pthread_condattr_t *a) V_REQUIRES(c != NULL) V_ASSIGNS(*c, g.cinit_calls) V_ENSURES(g.cinit_calls == V_OLD(g.cinit_calls) + 1 && V_RET == (g_fail_stage == 4 ? 11 : 0));
V_CONTRACT
static int add_threads(m_thpool_t *pool, int num)
V_REQUIRES(pool != NULL && num >= 0)
V_ASSIGNS(g.addthr_calls, g.addthr_num)
V_ENSURES(g.addthr_calls == V_OLD(g.addthr_calls) + 1 && g.addthr_num == num && V_RET == (g_fail_stage == 5 ? 11 : 0))
;
V_CONTRACT
int m_thpool_free(m_thpool_t **pool, bool wait_all)
V_REQUIRES(pool != NULL && *pool != NULL && !wait_all)
V_ASSIGNS(*pool, g.tpfree_calls, g.tpfree_state)
V_ENSURES(V_RET == 0 && *pool == NULL && g.tpfree_calls == V_OLD(g.tpfree_calls) + 1 && g.tpfree_state == (int)V_OLD((*pool)->init_state))
;
V_CONTRACT
m_thpool_t *m_thpool_new(uint8_t thread_count, m_thpool_flags flags)
V_REQUIRES(v_base_ok() && g_threads != NULL && g_tasks != NULL && g_fail_stage <= 5 && g_oom_mask <= 1)
V_ASSIGNS(g.lnew_calls, g.qnew_calls, g.minit_calls, g.cinit_calls, g.addthr_calls, g.addthr_num, g.tpfree_calls, g.tpfree_state, g_alloc_calls, g_last_alloc)
V_ENSURES(V_IMP(thread_count == 0, V_RET == NULL && g_alloc_calls == V_OLD(g_alloc_calls)))
/* success: every stage was reached and recorded, the pool carries the configured size and flags, workers are spawned at once unless the pool is lazy */
V_ENSURES(V_IMP(thread_count > 0 && !(V_OLD(g_oom_mask) & 1) && (g_fail_stage == 0 || (g_fail_stage == 5 && (flags & M_THPOOL_LAZY))),
                V_RET != NULL && V_RET->init_state == (INITED_THREADS | INITED_TASKS | INITED_MUT | INITED_COND | INITED_STARTED) && V_RET->max_threads == thread_count && V_RET->flags == flags
                && V_RET->shutdown == SHUTDOWN_NO && V_RET->threads == g_threads && V_RET->tasks == g_tasks && g.tpfree_calls == V_OLD(g.tpfree_calls)
                && g.addthr_calls == V_OLD(g.addthr_calls) + ((flags & M_THPOOL_LAZY) ? 0 : 1) && V_IMP(!(flags & M_THPOOL_LAZY), g.addthr_num == thread_count)))      /*@C06.pool-comes-back-fully-built-with-its-configured-size*/
/* a failing stage: what was built so far is torn down (exactly the stages recorded up to there) and nothing is returned */
V_ENSURES(V_IMP(thread_count > 0 && !(V_OLD(g_oom_mask) & 1) && g_fail_stage != 0 && !(g_fail_stage == 5 && (flags & M_THPOOL_LAZY)),
                V_RET == NULL && g.tpfree_calls == V_OLD(g.tpfree_calls) + 1
                && g.tpfree_state == (g_fail_stage == 1 ? 0 : g_fail_stage == 2 ? INITED_THREADS : g_fail_stage == 3 ? (INITED_THREADS | INITED_TASKS) : g_fail_stage == 4 ? (INITED_THREADS | INITED_TASKS | INITED_MUT)
                                      : (INITED_THREADS | INITED_TASKS | INITED_MUT | INITED_COND))))                                                                     /*@C06.half-built-pool-is-torn-down-not-returned*/
V_ENSURES(V_IMP(thread_count > 0 && (V_OLD(g_oom_mask) & 1), V_RET == NULL && g.tpfree_calls == V_OLD(g.tpfree_calls)))
;
#endif
