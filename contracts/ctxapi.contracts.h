/* Contracts for the context life-cycle API of Lib/core/ctx.c (C07, C15). Ghost: g_tls = the calling thread's context slot. */

V_CONTRACT
void *v_pthread_getspecific(pthread_key_t k)
V_REQUIRES(1)
V_ASSIGNS()
V_ENSURES(__CPROVER_pointer_equals(V_RET, (void *)g_tls))
;
V_CONTRACT
int v_pthread_setspecific(pthread_key_t k, const void *v)
V_REQUIRES(1)
V_ASSIGNS(g_tls, g.tls_set_calls)
V_ENSURES(V_RET == g_tls_set_ret && g.tls_set_calls == V_OLD(g.tls_set_calls) + 1 && (V_RET == 0 ? __CPROVER_pointer_equals(g_tls, (m_ctx_t *)v) : g_tls == V_OLD(g_tls)))
;
V_CONTRACT
int v_pthread_once(pthread_once_t *once, void (*f)(void))
V_REQUIRES(1)
V_ASSIGNS()
V_ENSURES(V_RET == 0)
;
V_CONTRACT
bool str_not_empty(const char *str)
V_REQUIRES(str == NULL || V_R_OK(str, 1))
V_ASSIGNS()
V_ENSURES(V_RET == (str != NULL && str[0] != 0))
;

#ifdef V_ENFORCE_M_CTX
/* m_ctx(): the thread's context, hidden from a module that is denied context access while one of its callbacks executes */
V_CONTRACT
m_ctx_t *m_ctx(void)
V_REQUIRES(v_base_ok() && (g_tls == NULL || (g_tls == g_ctx && V_RW_OK(g_ctx, sizeof(m_ctx_t)) && (g_ctx->curr_mod == NULL || (g_ctx->curr_mod == g_mod && V_R_OK(g_mod, sizeof(m_mod_t)))))))
V_ASSIGNS()
V_ENSURES(V_RET == ((g_tls != NULL && g_ctx->curr_mod != NULL && (g_mod->flags & M_MOD_DENY_CTX)) ? NULL : g_tls))                            /*@C15.context-hidden-from-deny-ctx-module-during-its-callbacks*/
;
#endif

/* the modules are visited by m_map_iterate(..., ctx_destroy_mods): each visit is a mod_deregister(), which only works while the
 * context is still the calling thread's context */
V_CONTRACT
int m_map_iterate(const m_map_t *m, m_map_cb fn, void *userptr)
V_REQUIRES(m == g_modules)
V_REQUIRES(g_tls == g_ctx)                                                                                                                  /*@C07.modules-deregistered-while-context-still-current*/
V_REQUIRES(g_ctx->state != M_CTX_IDLE)                                                                                                      /*@C07.no-nested-auto-release-during-teardown*/
V_ASSIGNS(g.iterate_calls, g_modules->len)
V_ENSURES(g.iterate_calls == V_OLD(g.iterate_calls) + 1 && g_modules->len == 0)
;

V_CONTRACT
int m_ctx_deregister(void)
/* g_dereg_allowed (ghost, set by the harness and tied to the state here): a context is visible on this thread and it is idle */
V_REQUIRES(g_dereg_allowed == (g_mctx != NULL && g_ctx->state == M_CTX_IDLE) && (g_mctx == NULL || g_mctx == g_ctx) && (g_mctx == NULL || g_tls == g_ctx))
V_REQUIRES(v_base_ok() && (g_tls == NULL || (g_tls == g_ctx && V_RW_OK(g_ctx, sizeof(m_ctx_t)) && g_ctx->modules == g_modules && v_map_ok_fn(g_modules)
           && (g_ctx->curr_mod == NULL || (g_ctx->curr_mod == g_mod && V_R_OK(g_mod, sizeof(m_mod_t)))))))
V_ASSIGNS(g_dereg_allowed: g_tls, g.tls_set_calls, g.iterate_calls, g_modules->len, g_ctx->state, g.unref_calls, g.unref_arg, g.unref_arg_prev)
/* no context on this thread (or hidden): error, no effect; looping context: refused, no effect */
/* m_ctx() answers NULL (no context on this thread, or hidden from a deny-ctx module during its callback): error, no effect */
V_ENSURES(V_IMP(g_mctx == NULL, V_RET == -EPIPE))                                                                                           /*@C07.no-context-no-effect*/ /*@C15.denied-context-call-has-no-effect*/
V_ENSURES(V_IMP(g_mctx != NULL && V_OLD(g_ctx->state) != M_CTX_IDLE, V_RET < 0 && g_tls == V_OLD(g_tls)))  /*@C07.looping-context-refuses-deregistration*/
/* idle context: every module is deregistered (one pass over them, while the context is current), the thread's slot is emptied, the
 * registration reference is dropped exactly once */
V_ENSURES(V_IMP(g_mctx != NULL && V_OLD(g_ctx->state) == M_CTX_IDLE && g_tls_set_ret == 0,
                V_RET == 0 && g_tls == NULL && g.iterate_calls == V_OLD(g.iterate_calls) + 1 && g.unref_calls == V_OLD(g.unref_calls) + 1 && __CPROVER_pointer_equals(g.unref_arg, (void *)g_ctx)))  /*@C07.idle-context-deregisters-modules-and-is-released*/
;

V_CONTRACT
int m_ctx_register(const char *ctx_name, m_ctx_flags flags, const void *userdata)
V_REQUIRES(v_base_ok() && (ctx_name == NULL || V_R_OK(ctx_name, 1)) && (g_tls == NULL || g_tls == g_ctx))
V_ASSIGNS(ctx_name != NULL && ctx_name[0] != 0 && g_tls == NULL: g_tls, g.tls_set_calls, g.ctxnew_calls)
V_ENSURES(V_IMP(ctx_name == NULL || ctx_name[0] == 0, V_RET == -EINVAL))
/* at most one context per thread: a second registration fails with EEXIST and changes nothing */
V_ENSURES(V_IMP(ctx_name != NULL && ctx_name[0] != 0 && V_OLD(g_tls) != NULL, V_RET == -EEXIST && g_tls == V_OLD(g_tls)))                     /*@C07.second-context-on-a-thread-refused*/
V_ENSURES(V_IMP(ctx_name != NULL && ctx_name[0] != 0 && V_OLD(g_tls) == NULL, g.ctxnew_calls == V_OLD(g.ctxnew_calls) + 1 && V_RET == g_ctxnew_ret))  /*@C07.free-thread-gets-a-fresh-context*/
;
#ifndef V_CTXNEW_UNIT
V_CONTRACT
static int ctx_new(const char *ctx_name, m_ctx_flags flags, const void *userdata)
V_REQUIRES(g_tls == NULL)
V_ASSIGNS(g_tls, g.tls_set_calls, g.ctxnew_calls)
V_ENSURES(V_RET == g_ctxnew_ret && g.ctxnew_calls == V_OLD(g.ctxnew_calls) + 1)
;
#else
/* ctx_new(): staged construction of a context; it becomes the thread's context only when every stage succeeded, and is released (once) otherwise */
V_CONTRACT int poll_create(poll_priv_t *priv) V_REQUIRES(priv != NULL) V_ASSIGNS(g.pollcreate_calls) V_ENSURES(V_RET == g_pollinit_ret && g.pollcreate_calls == V_OLD(g.pollcreate_calls) + 1);
V_CONTRACT m_map_t *m_map_new(m_map_flags flags, m_map_dtor fn) V_REQUIRES(flags == 0) V_ASSIGNS(g.mapnew_calls) V_ENSURES(__CPROVER_is_fresh(V_RET, sizeof(struct _map)) && g.mapnew_calls == V_OLD(g.mapnew_calls) + 1);
V_CONTRACT char *mem_strdup(const char *s) V_REQUIRES(s != NULL) V_ASSIGNS(g.strdup_calls) V_ENSURES(g.strdup_calls == V_OLD(g.strdup_calls) + 1 && __CPROVER_is_fresh(V_RET, 2));
V_CONTRACT int fs_create(m_ctx_t *c) V_REQUIRES(c != NULL) V_ASSIGNS(g.fscreate_calls) V_ENSURES(V_RET == g_ips_ret && g.fscreate_calls == V_OLD(g.fscreate_calls) + 1);
V_CONTRACT
void *m_mem_new(size_t size, m_ref_dtor dtor)
V_REQUIRES(size == sizeof(m_ctx_t))
V_ASSIGNS(g.memnew_calls)
V_ENSURES(__CPROVER_is_fresh(V_RET, sizeof(m_ctx_t)) && g.memnew_calls == V_OLD(g.memnew_calls) + 1 && ((m_ctx_t *)V_RET)->state == M_CTX_IDLE && !((m_ctx_t *)V_RET)->quit && !((m_ctx_t *)V_RET)->finalized
          && ((m_ctx_t *)V_RET)->curr_mod == NULL && ((m_ctx_t *)V_RET)->tick.src == NULL && ((m_ctx_t *)V_RET)->thpool == NULL && ((m_ctx_t *)V_RET)->stats.running_modules == 0)   /* zero-initialised block (unit mem.new) */
;
V_CONTRACT
static int ctx_new(const char *ctx_name, m_ctx_flags flags, const void *userdata)
V_REQUIRES(v_base_ok() && g_tls == NULL && ctx_name != NULL && V_R_OK(ctx_name, 2) && g.memnew_calls == 0)
V_ASSIGNS(g_tls, g.tls_set_calls, g.memnew_calls, g.pollcreate_calls, g.mapnew_calls, g.strdup_calls, g.fscreate_calls, g.unref_calls, g.unref_arg, g.unref_arg_prev)
/* every stage succeeded: the fresh context is the thread's context, IDLE, empty, carrying name / flags / user data as given, holding exactly its registration reference */
V_ENSURES(V_IMP(g_pollinit_ret == 0 && g_ips_ret == 0 && g_tls_set_ret == 0, V_RET == 0 && g_tls != NULL && g.memnew_calls == 1 && g.unref_calls == V_OLD(g.unref_calls)
                && g_tls->state == M_CTX_IDLE && g_tls->userdata == userdata && (g_tls->flags & flags) == flags && g_tls->modules != NULL && g_tls->name != NULL
                && ((flags & M_CTX_NAME_DUP) ? ((g_tls->flags & M_CTX_NAME_AUTOFREE) && g_tls->name != ctx_name) : g_tls->name == ctx_name)))                /*@C07.fresh-context-becomes-the-threads-context*/
/* a failing stage: the half-built context is released exactly once, the thread keeps having no context, the error is returned */
V_ENSURES(V_IMP(!(g_pollinit_ret == 0 && g_ips_ret == 0 && g_tls_set_ret == 0), V_RET != 0 && g_tls == NULL && g.unref_calls == V_OLD(g.unref_calls) + 1 && g.memnew_calls == 1))   /*@C07.failed-creation-leaves-no-context-behind*/
;
#endif

#ifdef V_CTXDTOR_UNIT
/* ctx_dtor(): what goes with the last reference to a context */
V_CONTRACT int deregister_ctx_src(m_ctx_t *c, ev_src_t **src) V_REQUIRES(c == g_ctx && src == &g_ctx->tick.src) V_ASSIGNS(g.ctxsrc_dereg_calls, g_ctx->tick.src) V_ENSURES(g.ctxsrc_dereg_calls == V_OLD(g.ctxsrc_dereg_calls) + 1 && g_ctx->tick.src == NULL && g.ctxsrc_dereg_at_polldestroy == g.polldestroy_calls);
V_CONTRACT int m_map_free(m_map_t **m) V_REQUIRES(m == &g_ctx->modules) V_ASSIGNS(g_ctx->modules, g.mapfree_calls) V_ENSURES(g.mapfree_calls == V_OLD(g.mapfree_calls) + 1 && g_ctx->modules == NULL);
V_CONTRACT int poll_destroy(poll_priv_t *priv) V_REQUIRES(priv == &g_ctx->ppriv) V_ASSIGNS(g.polldestroy_calls) V_ENSURES(V_RET == 0 && g.polldestroy_calls == V_OLD(g.polldestroy_calls) + 1);
V_CONTRACT int fs_destroy(m_ctx_t *c) V_REQUIRES(c == g_ctx) V_ASSIGNS() V_ENSURES(1);
V_CONTRACT
static void ctx_dtor(void *data)
V_REQUIRES(v_base_ok() && data == (void *)g_ctx && V_RW_OK(g_ctx, sizeof(m_ctx_t)) && g_ctx->ppriv.data == g_ppdata && g_ppdata != NULL && g_fc0 == g_free_calls
           && g_ctx->name == g_namebuf && g_ctx->userdata == (const void *)g_udbuf && g_namebuf != NULL && g_udbuf != NULL && g_namebuf != (char *)g_udbuf && (void *)g_namebuf != g_ppdata && (void *)g_udbuf != g_ppdata)
V_ASSIGNS(g.ctxsrc_dereg_calls, g.ctxsrc_dereg_at_polldestroy, g_ctx->tick.src, g_ctx->modules, g.mapfree_calls, g.polldestroy_calls, g_free_calls, g_free_arg, g_free_arg0)
V_FREES(g_ppdata, g_namebuf, g_udbuf)
/* the tick source is removed while the poll set still exists (that is what closes its timer descriptor), then the poll descriptor goes: nothing the context opened survives it */
V_ENSURES(g.ctxsrc_dereg_calls == V_OLD(g.ctxsrc_dereg_calls) + 1 && g.polldestroy_calls == V_OLD(g.polldestroy_calls) + 1 && g.ctxsrc_dereg_at_polldestroy == V_OLD(g.polldestroy_calls)
          && g.mapfree_calls == V_OLD(g.mapfree_calls) + 1)                                                                                   /*@C20.everything-the-context-opened-is-closed-with-it*/
/* name and user data are released exactly when the context was told to own them; the plugin's private block always */
V_ENSURES(g_free_calls == g_fc0 + 1 + ((g_ctx->flags & M_CTX_NAME_AUTOFREE) ? 1 : 0) + ((g_ctx->flags & M_CTX_USERDATA_AUTOFREE) ? 1 : 0))             /*@C04.context-owned-strings-released-iff-autofree*/
;
#endif
