/* User callbacks as contracts (assume-guarantee, DESIGN.md 2.6): a callback may do anything the public API allows on
 * its own module / context (change state along the API, push/pop handlers, consume tokens, ...) -- modelled as a havoc of
 * those fields constrained by the invariants every public function is proved to preserve -- and must be CALLED in the
 * situation the properties promise: on the right module, while that module is the context's current module. */
#define V_CB_FRAME g.evt_cb_calls, g.evt_cb_mod, g.evt_cb_q, g.evt_cb_which, g.on_start_calls, g.on_stop_calls, g.on_eval_calls, \
                   g_mod->state, g_mod->tb.tokens, g_mod->stats.action_ctr, g_mod->stats.last_seen, g_mod->stats.sent_msgs, g_mod->batch.len, \
                   g_recvs->len, g_recvs->top, g_ctx->stats.running_modules, g_ctx->quit, g_ctx->quit_code, g_errno, g.sys_msgs, g.sys_stopped, g.sys_sender, g.sys_kind
#define V_CB_REQ(self) ((self) == g_mod && V_RW_OK(g_mod, sizeof(m_mod_t)) && g_mod->ctx == g_ctx && V_RW_OK(g_ctx, sizeof(m_ctx_t)) \
                        && g_ctx->curr_mod == g_mod && g_mod->recvs == g_recvs && V_S_OK(g_recvs))
/* a callback changes the lifecycle state of its own module only by deregistering it (then the nested deregistration emitted its
 * one MOD_STOPPED); nested start/stop/pause of the own module from inside a callback is covered by the per-function invariants only */
#define V_CB_ENS       (v_state_valid(g_mod->state) && (g_mod->state == V_OLD(g_mod->state) || g_mod->state == M_MOD_ZOMBIE) \
                        && g.sys_stopped == V_OLD(g.sys_stopped) + ((g_mod->state == M_MOD_ZOMBIE && V_OLD(g_mod->state) != M_MOD_ZOMBIE) ? 1 : 0) \
                        && g.sys_msgs == V_OLD(g.sys_msgs) + ((g_mod->state == M_MOD_ZOMBIE && V_OLD(g_mod->state) != M_MOD_ZOMBIE) ? 1 : 0) \
                        && g_ctx->stats.running_modules == V_OLD(g_ctx->stats.running_modules) - ((g_mod->state == M_MOD_ZOMBIE && V_OLD(g_mod->state) == M_MOD_RUNNING) ? 1 : 0) \
                        && V_S_OK(g_recvs) && (g_recvs->len == 0) == (g_recvs->top == NULL) \
                        && g_mod->tb.tokens <= V_OLD(g_mod->tb.tokens) && g_ctx->curr_mod == g_mod)

V_CONTRACT
void v_on_evt(m_mod_t *self, const m_queue_t *const evts)
V_REQUIRES(V_CB_REQ(self) && V_Q_OK(evts) && evts->len > 0)                                     /*@C15.callback-runs-as-current-module*/
V_ASSIGNS(V_CB_FRAME)
V_ENSURES(g.evt_cb_calls == V_OLD(g.evt_cb_calls) + 1 && __CPROVER_pointer_equals(g.evt_cb_mod, self) && __CPROVER_pointer_equals(g.evt_cb_q, evts) && g.evt_cb_which == 0 && V_CB_ENS)
;
V_CONTRACT
void v_become_evt(m_mod_t *self, const m_queue_t *const evts)
V_REQUIRES(V_CB_REQ(self) && V_Q_OK(evts) && evts->len > 0)                                     /*@C15.callback-runs-as-current-module*/
V_ASSIGNS(V_CB_FRAME)
V_ENSURES(g.evt_cb_calls == V_OLD(g.evt_cb_calls) + 1 && __CPROVER_pointer_equals(g.evt_cb_mod, self) && __CPROVER_pointer_equals(g.evt_cb_q, evts) && g.evt_cb_which == 1 && V_CB_ENS)
;

V_CONTRACT
bool v_on_start(m_mod_t *self)
V_REQUIRES(V_CB_REQ(self))                                                                     /*@C15.callback-runs-as-current-module*/
V_ASSIGNS(V_CB_FRAME)
V_ENSURES(g.on_start_calls == V_OLD(g.on_start_calls) + 1 && g.on_stop_calls == V_OLD(g.on_stop_calls) && g.on_eval_calls == V_OLD(g.on_eval_calls) && V_CB_ENS)
;
V_CONTRACT
bool v_on_eval(m_mod_t *self)
V_REQUIRES(V_CB_REQ(self))                                                                     /*@C15.callback-runs-as-current-module*/
V_ASSIGNS(V_CB_FRAME)
V_ENSURES(g.on_eval_calls == V_OLD(g.on_eval_calls) + 1 && g.on_stop_calls == V_OLD(g.on_stop_calls) && g.on_start_calls == V_OLD(g.on_start_calls) && V_CB_ENS)
;
V_CONTRACT
void v_on_stop(m_mod_t *self)
V_REQUIRES(V_CB_REQ(self))                                                                     /*@C15.callback-runs-as-current-module*/
V_ASSIGNS(V_CB_FRAME)
V_ENSURES(g.on_stop_calls == V_OLD(g.on_stop_calls) + 1 && g.on_start_calls == V_OLD(g.on_start_calls) && g.on_eval_calls == V_OLD(g.on_eval_calls) && V_CB_ENS)
;
