/* Contract for manage_srcs() (mod.c): what start/resume (ADD), pause (RM) and stop (RM + drop) do to a module's registered sources -- C09, C01, C20.
 * The eight per-kind sets are ghost records g_sets[k] = {len}; their iterator is the ghost singleton *g_bit (set, position idx, "current element was just removed"),
 * every visited source is (an alias of) the focus source g_psrc, whose kind is the kind of the set being walked.  g_L0[k] / g_PS[k]: initial size of set k / of the sets before k. */
static inline bool v_bit_ok(void) { return g_bit != NULL && V_RW_OK(g_bit, sizeof(struct _bst_itr)) && g_bit->t != NULL && __CPROVER_same_object(g_bit->t, &g_sets[0])
                                          && g_bit->idx < ((struct _bst *)g_bit->t)->len; }
V_CONTRACT
m_bst_itr_t *m_bst_itr_new(const m_bst_t *l)
V_REQUIRES(l != NULL && __CPROVER_same_object(l, &g_sets[0]) && g_bit != NULL && V_RW_OK(g_bit, sizeof(struct _bst_itr)))
V_ASSIGNS(g_bit->t, g_bit->idx, g_bit->removed)
V_ENSURES(((const struct _bst *)l)->len == 0 ? V_RET == NULL : (__CPROVER_pointer_equals(V_RET, g_bit) && __CPROVER_pointer_equals(g_bit->t, (m_bst_t *)l) && g_bit->idx == 0 && !g_bit->removed))
;
V_CONTRACT
int m_bst_itr_next(m_bst_itr_t **itr)
V_REQUIRES(itr != NULL && V_RW_OK(itr, sizeof(*itr)) && *itr == (m_bst_itr_t *)g_bit && g_bit != NULL && V_RW_OK(g_bit, sizeof(struct _bst_itr)) && g_bit->t != NULL
           && (g_bit->removed ? g_bit->idx <= ((struct _bst *)g_bit->t)->len : g_bit->idx < ((struct _bst *)g_bit->t)->len))
V_ASSIGNS(*itr, g_bit->idx, g_bit->removed, g.mit_freed)
V_ENSURES(V_RET == 0 && !g_bit->removed && g_bit->idx == V_OLD(g_bit->idx) + (V_OLD(g_bit->removed) ? 0 : 1)
          && (g_bit->idx < ((struct _bst *)g_bit->t)->len ? (*itr == V_OLD(*itr) && g.mit_freed == V_OLD(g.mit_freed)) : (*itr == NULL && g.mit_freed == V_OLD(g.mit_freed) + 1)))
;
V_CONTRACT
void *m_bst_itr_get_data(const m_bst_itr_t *itr)
V_REQUIRES(itr == (const m_bst_itr_t *)g_bit && v_bit_ok() && !g_bit->removed)
V_ASSIGNS(g_psrc->type)
V_ENSURES(__CPROVER_pointer_equals(V_RET, g_psrc) && g_psrc->type == (m_src_types)((struct _bst *)g_bit->t - &g_sets[0]))
;
V_CONTRACT
int m_bst_itr_remove(m_bst_itr_t *itr)
V_REQUIRES(itr == (m_bst_itr_t *)g_bit && v_bit_ok() && !g_bit->removed)
V_ASSIGNS(g_sets[0].len, g_sets[1].len, g_sets[2].len, g_sets[3].len, g_sets[4].len, g_sets[5].len, g_sets[6].len, g_sets[7].len, g_bit->removed, g.itr_rm_calls)
V_ENSURES(V_RET == 0 && g_bit->removed && g.itr_rm_calls == V_OLD(g.itr_rm_calls) + 1
          && g_sets[0].len == V_OLD(g_sets[0].len) - ((struct _bst *)g_bit->t == &g_sets[0] ? 1 : 0)
          && g_sets[1].len == V_OLD(g_sets[1].len) - ((struct _bst *)g_bit->t == &g_sets[1] ? 1 : 0)
          && g_sets[2].len == V_OLD(g_sets[2].len) - ((struct _bst *)g_bit->t == &g_sets[2] ? 1 : 0)
          && g_sets[3].len == V_OLD(g_sets[3].len) - ((struct _bst *)g_bit->t == &g_sets[3] ? 1 : 0)
          && g_sets[4].len == V_OLD(g_sets[4].len) - ((struct _bst *)g_bit->t == &g_sets[4] ? 1 : 0)
          && g_sets[5].len == V_OLD(g_sets[5].len) - ((struct _bst *)g_bit->t == &g_sets[5] ? 1 : 0)
          && g_sets[6].len == V_OLD(g_sets[6].len) - ((struct _bst *)g_bit->t == &g_sets[6] ? 1 : 0)
          && g_sets[7].len == V_OLD(g_sets[7].len) - ((struct _bst *)g_bit->t == &g_sets[7] ? 1 : 0))
;
V_CONTRACT
int poll_set_new_evt(poll_priv_t *priv, ev_src_t *tmp, const enum op_type flag)
V_REQUIRES(priv == &g_ctx->ppriv && tmp == g_psrc)
V_ASSIGNS(g.tick_poll_calls, g.tick_poll_flag, g_errno)
V_ENSURES(V_RET == g_pollinit_ret && g.tick_poll_calls == V_OLD(g.tick_poll_calls) + 1 && g.tick_poll_flag == (int)flag)
;
V_CONTRACT int start_task(m_ctx_t *c, ev_src_t *src) V_REQUIRES(c == g_ctx && src == g_psrc && g_psrc->type == M_SRC_TYPE_TASK) V_ASSIGNS(g.starttask_calls, g_errno) V_ENSURES(V_RET == 0 && g.starttask_calls == V_OLD(g.starttask_calls) + 1);
V_CONTRACT
int flush_pubsub_msgs(void *data, const char *key, void *value)
V_REQUIRES(value == (void *)g_mod && key == NULL)                                                   /*@C02.messages-pending-for-a-stopping-module-are-destroyed-not-delivered*/
V_ASSIGNS(g.flush_calls)
V_ENSURES(V_RET == 0 && g.flush_calls == V_OLD(g.flush_calls) + 1)
;
#define V_ALL_LENS   (g_sets[0].len + g_sets[1].len + g_sets[2].len + g_sets[3].len + g_sets[4].len + g_sets[5].len + g_sets[6].len + g_sets[7].len)
V_CONTRACT
static int manage_srcs(m_mod_t *mod, m_ctx_t *c, int flag, bool stop)
V_REQUIRES(v_base_ok() && mod == g_mod && V_RW_OK(g_mod, sizeof(m_mod_t)) && c == g_ctx && V_RW_OK(g_ctx, sizeof(m_ctx_t)) && (flag == ADD || flag == RM) && g_bit != NULL && V_RW_OK(g_bit, sizeof(struct _bst_itr))
           && g_psrc != NULL && V_RW_OK(g_psrc, sizeof(ev_src_t)))
V_REQUIRES(g_mod->srcs[0] == (m_bst_t *)&g_sets[0] && g_mod->srcs[1] == (m_bst_t *)&g_sets[1] && g_mod->srcs[2] == (m_bst_t *)&g_sets[2] && g_mod->srcs[3] == (m_bst_t *)&g_sets[3]
           && g_mod->srcs[4] == (m_bst_t *)&g_sets[4] && g_mod->srcs[5] == (m_bst_t *)&g_sets[5] && g_mod->srcs[6] == (m_bst_t *)&g_sets[6] && g_mod->srcs[7] == (m_bst_t *)&g_sets[7])
V_REQUIRES(g_PS[0] == 0 && g_L0[0] == g_sets[0].len && g_L0[1] == g_sets[1].len && g_L0[2] == g_sets[2].len && g_L0[3] == g_sets[3].len && g_L0[4] == g_sets[4].len && g_L0[5] == g_sets[5].len
           && g_L0[6] == g_sets[6].len && g_L0[7] == g_sets[7].len && g_L0[0] < 1000000 && g_L0[1] < 1000000 && g_L0[2] < 1000000 && g_L0[3] < 1000000 && g_L0[4] < 1000000 && g_L0[5] < 1000000 && g_L0[6] < 1000000 && g_L0[7] < 1000000
           && g_PS[1] == g_PS[0] + g_L0[0] && g_PS[2] == g_PS[1] + g_L0[1] && g_PS[3] == g_PS[2] + g_L0[2] && g_PS[4] == g_PS[3] + g_L0[3] && g_PS[5] == g_PS[4] + g_L0[4] && g_PS[6] == g_PS[5] + g_L0[5]
           && g_PS[7] == g_PS[6] + g_L0[6] && g_PS[8] == g_PS[7] + g_L0[7])
V_REQUIRES(g_p0 == g.tick_poll_calls && g_r0 == g.itr_rm_calls && g_fr0 == g.mit_freed && g_f0 == g.flush_calls && g_t0 == g.starttask_calls)
V_ASSIGNS(g_bit->t, g_bit->idx, g_bit->removed, g.mit_freed, g_psrc->type, g_sets[0].len, g_sets[1].len, g_sets[2].len, g_sets[3].len, g_sets[4].len, g_sets[5].len, g_sets[6].len, g_sets[7].len,
          g.itr_rm_calls, g.tick_poll_calls, g.tick_poll_flag, g_errno, g.starttask_calls, g.flush_calls)
/* stop: every source of every kind leaves the registry (each removed exactly once), the messages still pending for the module are destroyed -- once per pub/sub pipe source --,
 * and nothing is handed to the poll plugin by this function (removal from the poll set happens when the source object dies: unit src.priv_dtor) */
V_ENSURES(V_IMP(flag == RM && stop, V_ALL_LENS == 0 && g.itr_rm_calls == g_r0 + g_PS[8] && g.flush_calls == g_f0 + g_L0[M_SRC_TYPE_PS] && g.tick_poll_calls == g_p0))      /*@C09.all-sources-dropped-when-the-module-is-stopped*/
/* start / resume / pause: the registry is left exactly as it is (sources survive pause/resume), and every registered source is added to / removed from the poll set exactly once */
V_ENSURES(V_IMP(!(flag == RM && stop), g_sets[0].len == g_L0[0] && g_sets[1].len == g_L0[1] && g_sets[2].len == g_L0[2] && g_sets[3].len == g_L0[3] && g_sets[4].len == g_L0[4]
                && g_sets[5].len == g_L0[5] && g_sets[6].len == g_L0[6] && g_sets[7].len == g_L0[7] && g.itr_rm_calls == g_r0 && g.flush_calls == g_f0))                       /*@C09.sources-survive-pause-and-resume*/
V_ENSURES(V_IMP(!(flag == RM && stop), g.tick_poll_calls == g_p0 + g_PS[8] && V_IMP(g_PS[8] > 0, g.tick_poll_flag == flag)))                                                    /*@C01.every-source-polled-iff-its-module-runs*/
/* a task source of a module that starts running is handed to the pool, exactly once each */
V_ENSURES(V_IMP(flag == ADD && g_pollinit_ret == 0, g.starttask_calls == g_t0 + g_L0[M_SRC_TYPE_TASK]) && V_IMP(flag == RM, g.starttask_calls == g_t0))
;
