/* Contracts for Lib/structs/bst.c (property C11; safety obligations also count for C04).
 * Unbounded part (idiom A/B): ptrcmp over all pointer pairs; insert_node and the <=1-child branch of remove_node as
 * window contracts (tree of any size; everything outside the window unmaterialised, frame checked); new/len.
 * Everything that walks the tree (descent, successor, 2-children removal, traversals, iterator, clear/free) is a
 * bounded stand-in in units/bst.c (all trees of <= K nodes).
 * Ghost window: g_t the tree, g_slot the link (&t->root, &X->left or &X->right), g_N == *g_slot, g_child the only child
 * of g_N (or NULL), g_Nd / g_childd never-NULL aliases for V_OLD. */
#define V_TLEN_MAX ((size_t)1 << 62)

static inline int v_sgn(long long x) { return (x > 0) - (x < 0); }

V_CONTRACT
static int ptrcmp(void *userdata, void *node_data)
V_ASSIGNS()
/* the default comparator is a total order on addresses: its sign is the sign of the address comparison for EVERY pair
 * of pointers, however far apart (no truncation of the difference) */
V_ENSURES(v_sgn(V_RET) == ((uintptr_t)userdata > (uintptr_t)node_data) - ((uintptr_t)userdata < (uintptr_t)node_data))   /*@C11.default-comparator-orders-all-pointers*/
;

static inline bool v_t_ok(void) {
    if (g_t == NULL || !V_RW_OK(g_t, sizeof(m_bst_t))) return false;
    if (g_t->dtor != NULL && g_t->dtor != v_elem_dtor) return false;
    if (g_t->len >= V_TLEN_MAX) return false;
    return g_slot != NULL && V_RW_OK(g_slot, sizeof(bst_node *));
}

V_CONTRACT
m_bst_t *m_bst_new(m_bst_cmp comp, m_bst_dtor fn)
V_REQUIRES(v_base_ok())
V_ASSIGNS(g_alloc_calls, g_last_alloc)
V_ENSURES(V_IMP(V_OLD(g_oom_mask) == 0, V_RET != NULL))                                                             /*@C11.new-succeeds*/
V_ENSURES(V_IMP(V_RET != NULL, V_RW_OK(V_RET, sizeof(m_bst_t)) && V_RET->len == 0 && V_RET->root == NULL && V_RET->dtor == fn
                && V_RET->comp == (comp ? comp : ptrcmp)))                                                           /*@C11.new-is-empty-with-default-comparator*/
;

V_CONTRACT
ssize_t m_bst_len(const m_bst_t *l)
V_REQUIRES(v_base_ok())
V_REQUIRES(l == NULL || (l == g_t && v_t_ok()))
V_ASSIGNS()
V_ENSURES(V_RET == (l == NULL ? -EINVAL : (ssize_t)g_t->len))                                                       /*@C11.len-exact*/
;

V_CONTRACT
static inline int insert_node(m_bst_t *l, bst_node **elem, bst_node *parent, void *data)
V_REQUIRES(v_base_ok())
V_REQUIRES(l == g_t && elem == g_slot && v_t_ok() && *g_slot == NULL)
V_ASSIGNS(g_alloc_calls, g_last_alloc, *g_slot, g_t->len)
V_ENSURES(V_IMP(V_RET != 0, V_RET == -ENOMEM && *g_slot == NULL && g_t->len == V_OLD(g_t->len)))                     /*@C11.insert-failure-no-effect*/
V_ENSURES(V_IMP(V_OLD(g_oom_mask) == 0, V_RET == 0))
V_ENSURES(V_IMP(V_RET == 0, *g_slot != NULL && *g_slot == (bst_node *)g_last_alloc && V_RW_OK(*g_slot, sizeof(bst_node))
                && (*g_slot)->userptr == data && (*g_slot)->parent == parent && (*g_slot)->left == NULL && (*g_slot)->right == NULL
                && g_t->len == V_OLD(g_t->len) + 1))                                                                 /*@C11.insert-links-one-leaf*/
;

V_CONTRACT
static inline int remove_node(m_bst_t *l, bst_node **elem)
V_REQUIRES(v_base_ok())
V_REQUIRES(l == g_t && elem == g_slot && v_t_ok() && *g_slot == g_N && g_t->len >= (g_N ? 1 : 0))
/* window of the splice case: the node has at most one child, and that child is materialised */
V_REQUIRES(g_N == NULL || (V_RW_OK(g_N, sizeof(bst_node)) && !(g_N->left != NULL && g_N->right != NULL)
           && g_child == (g_N->left ? g_N->left : g_N->right) && (g_child == NULL || V_RW_OK(g_child, sizeof(bst_node)))))
V_REQUIRES(g_Nd == (g_N ? g_N : &g_dummy_node))
V_ASSIGNS(g_free_calls, g_free_arg, g_free_arg0, g_dtor_calls, g_dtor_arg; g_N != NULL: *g_slot, g_t->len; g_N != NULL && g_child != NULL: g_child->parent)
V_FREES(g_N)
V_ENSURES(V_IMP(g_N == NULL, V_RET == -ENOENT && g_free_calls == V_OLD(g_free_calls) && g_dtor_calls == V_OLD(g_dtor_calls)))   /*@C11.remove-absent-no-effect*/
V_ENSURES(V_IMP(g_N != NULL, V_RET == 0 && *g_slot == g_child && g_t->len == V_OLD(g_t->len) - 1
                && g_free_calls == V_OLD(g_free_calls) + 1 && g_free_arg == (void *)g_N))                            /*@C11.remove-splices-out-exactly-the-node*/
V_ENSURES(V_IMP(g_N != NULL && g_child != NULL, g_child->parent == V_OLD(g_Nd->parent)))                            /*@C11.remove-keeps-parent-links*/
V_ENSURES(V_IMP(g_N != NULL && g_t->dtor != NULL, g_dtor_calls == V_OLD(g_dtor_calls) + 1 && g_dtor_arg == V_OLD(g_Nd->userptr)))  /*@C11.dtor-once-on-removed-element*/
V_ENSURES(V_IMP(g_t->dtor == NULL, g_dtor_calls == V_OLD(g_dtor_calls)))
;

#ifdef V_TRAV_UNIT
/* ---- traversals: the induction step, unbounded --------------------------------------------------------------------------------------------
 * Window: a node g_W with children g_WL / g_WR (either may be NULL) whose subtrees hold g_szL / g_szR elements.  The recursive calls on the children are checked
 * against this same contract (goto-instrument --enforce-contract-rec), the function body is verified for node == g_W and node == NULL: if the traversal visits
 * every element of each subtree exactly once, it visits every element of the tree rooted at g_W exactly once, and g_W's own element at the position its order
 * prescribes.  A traversal that is not this structural recursion (an explicit stack, a loop) has no such proof: it is reported as undecided, not accepted. */
static inline size_t v_sz(const bst_node *n) { return n == NULL ? 0 : n == g_W ? g_szL + 1 + g_szR : n == g_WL ? g_szL : n == g_WR ? g_szR : 0; }
static inline bool v_trav_window_ok(void) {
    return g_szL < ((size_t)1 << 60) && g_szR < ((size_t)1 << 60) && (g_WL == NULL) == (g_szL == 0) && (g_WR == NULL) == (g_szR == 0)
        && (g_W == NULL || (V_RW_OK(g_W, sizeof(bst_node)) && g_W->left == g_WL && g_W->right == g_WR && g_W->userptr == g_Wup && g_WL != g_W && g_WR != g_W && (g_WL == NULL || g_WL != g_WR)));
}
/* the user callback: keeps going (returns 0); records at which position the window node's own element is handed over */
V_CONTRACT
int v_trav_cb(void *up, void *data)
V_REQUIRES(up == (void *)&g_cbcalls)
V_ASSIGNS(g_cbcalls, g_cbposW)
V_ENSURES(V_RET == 0 && g_cbcalls == V_OLD(g_cbcalls) + 1 && g_cbposW == (data == g_Wup ? V_OLD(g_cbcalls) : V_OLD(g_cbposW)))
;
#define V_TRAV_CONTRACT(fn, pos, TAG) \
V_CONTRACT \
static inline int fn(bst_node *node, m_bst_cb cb, void *userptr) \
V_REQUIRES(v_trav_window_ok() && (node == NULL || node == g_W || node == g_WL || node == g_WR) && cb == v_trav_cb && userptr == (void *)&g_cbcalls && g_cbcalls < ((size_t)1 << 61)) \
V_ASSIGNS(g_cbcalls, g_cbposW) \
/* every element of the (sub)tree is handed to the callback exactly once */ \
V_ENSURES(V_RET == 0 && g_cbcalls == V_OLD(g_cbcalls) + v_sz(node))                                                   /*@C11.traversal-visits-every-element-exactly-once*/ \
/* the node's own element comes at the position its order prescribes relative to its two subtrees; the subtrees do not contain it */ \
V_ENSURES(V_IMP(node != NULL && node == g_W, g_cbposW == V_OLD(g_cbcalls) + (pos)) && V_IMP(node != g_W, g_cbposW == V_OLD(g_cbposW)))   TAG \
;
V_TRAV_CONTRACT(traverse_inorder, g_szL, /*@C11.in-order-is-left-subtree-node-right-subtree*/)
V_TRAV_CONTRACT(traverse_preorder, 0, /*@C11.pre-order-is-node-before-its-subtrees*/)
V_TRAV_CONTRACT(traverse_postorder, g_szL + g_szR, /*@C11.post-order-is-node-after-its-subtrees*/)
#endif
