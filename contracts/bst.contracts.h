/* Contracts for Lib/structs/bst.c (property C11; safety obligations also count for C04).
 * Unbounded part (idiom A/B): ptrcmp over all pointer pairs; insert_node and the <=1-child branch of remove_node as
 * window contracts (tree of any size; everything outside the window unmaterialised, frame checked); new/len.
 * Everything that walks the tree (descent, successor, 2-children removal, traversals, iterator, clear/free) is a
 * bounded stand-in in units/bst.c (all trees of <= K nodes).
 * Ghost window: g_t the tree, g_slot the link (&t->root, &X->left or &X->right), g_N == *g_slot, g_child the only child
 * of g_N (or NULL), g_Nd / g_childd never-NULL aliases for V_OLD. */
#define V_TLEN_MAX ((size_t)1 << 62)

static inline int v_sgn(long long x) { return (x > 0) - (x < 0); }

V_CONTRACT
static int ptrcmp(void *userdata, void *node_data)
V_ASSIGNS()
/* the default comparator is a total order on addresses: its sign is the sign of the address comparison for EVERY pair
 * of pointers, however far apart (no truncation of the difference) */
V_ENSURES(v_sgn(V_RET) == ((uintptr_t)userdata > (uintptr_t)node_data) - ((uintptr_t)userdata < (uintptr_t)node_data))   /*@C11.default-comparator-orders-all-pointers*/
;

static inline bool v_t_ok(void) {
    if (g_t == NULL || !V_RW_OK(g_t, sizeof(m_bst_t))) return false;
    if (g_t->dtor != NULL && g_t->dtor != v_elem_dtor) return false;
    if (g_t->len >= V_TLEN_MAX) return false;
    return g_slot != NULL && V_RW_OK(g_slot, sizeof(bst_node *));
}

V_CONTRACT
m_bst_t *m_bst_new(m_bst_cmp comp, m_bst_dtor fn)
V_REQUIRES(v_base_ok())
V_ASSIGNS(g_alloc_calls, g_last_alloc)
V_ENSURES(V_IMP(V_OLD(g_oom_mask) == 0, V_RET != NULL))                                                             /*@C11.new-succeeds*/
V_ENSURES(V_IMP(V_RET != NULL, V_RW_OK(V_RET, sizeof(m_bst_t)) && V_RET->len == 0 && V_RET->root == NULL && V_RET->dtor == fn
                && V_RET->comp == (comp ? comp : ptrcmp)))                                                           /*@C11.new-is-empty-with-default-comparator*/
;

V_CONTRACT
ssize_t m_bst_len(const m_bst_t *l)
V_REQUIRES(v_base_ok())
V_REQUIRES(l == NULL || (l == g_t && v_t_ok()))
V_ASSIGNS()
V_ENSURES(V_RET == (l == NULL ? -EINVAL : (ssize_t)g_t->len))                                                       /*@C11.len-exact*/
;

V_CONTRACT
static inline int insert_node(m_bst_t *l, bst_node **elem, bst_node *parent, void *data)
V_REQUIRES(v_base_ok())
V_REQUIRES(l == g_t && elem == g_slot && v_t_ok() && *g_slot == NULL)
V_ASSIGNS(g_alloc_calls, g_last_alloc, *g_slot, g_t->len)
V_ENSURES(V_IMP(V_RET != 0, V_RET == -ENOMEM && *g_slot == NULL && g_t->len == V_OLD(g_t->len)))                     /*@C11.insert-failure-no-effect*/
V_ENSURES(V_IMP(V_OLD(g_oom_mask) == 0, V_RET == 0))
V_ENSURES(V_IMP(V_RET == 0, *g_slot != NULL && *g_slot == (bst_node *)g_last_alloc && V_RW_OK(*g_slot, sizeof(bst_node))
                && (*g_slot)->userptr == data && (*g_slot)->parent == parent && (*g_slot)->left == NULL && (*g_slot)->right == NULL
                && g_t->len == V_OLD(g_t->len) + 1))                                                                 /*@C11.insert-links-one-leaf*/
;

V_CONTRACT
static inline int remove_node(m_bst_t *l, bst_node **elem)
V_REQUIRES(v_base_ok())
V_REQUIRES(l == g_t && elem == g_slot && v_t_ok() && *g_slot == g_N && g_t->len >= (g_N ? 1 : 0))
/* window of the splice case: the node has at most one child, and that child is materialised */
V_REQUIRES(g_N == NULL || (V_RW_OK(g_N, sizeof(bst_node)) && !(g_N->left != NULL && g_N->right != NULL)
           && g_child == (g_N->left ? g_N->left : g_N->right) && (g_child == NULL || V_RW_OK(g_child, sizeof(bst_node)))))
V_REQUIRES(g_Nd == (g_N ? g_N : &g_dummy_node))
V_ASSIGNS(g_free_calls, g_free_arg, g_free_arg0, g_dtor_calls, g_dtor_arg; g_N != NULL: *g_slot, g_t->len; g_N != NULL && g_child != NULL: g_child->parent)
V_FREES(g_N)
V_ENSURES(V_IMP(g_N == NULL, V_RET == -ENOENT && g_free_calls == V_OLD(g_free_calls) && g_dtor_calls == V_OLD(g_dtor_calls)))   /*@C11.remove-absent-no-effect*/
V_ENSURES(V_IMP(g_N != NULL, V_RET == 0 && *g_slot == g_child && g_t->len == V_OLD(g_t->len) - 1
                && g_free_calls == V_OLD(g_free_calls) + 1 && g_free_arg == (void *)g_N))                            /*@C11.remove-splices-out-exactly-the-node*/
V_ENSURES(V_IMP(g_N != NULL && g_child != NULL, g_child->parent == V_OLD(g_Nd->parent)))                            /*@C11.remove-keeps-parent-links*/
V_ENSURES(V_IMP(g_N != NULL && g_t->dtor != NULL, g_dtor_calls == V_OLD(g_dtor_calls) + 1 && g_dtor_arg == V_OLD(g_Nd->userptr)))  /*@C11.dtor-once-on-removed-element*/
V_ENSURES(V_IMP(g_t->dtor == NULL, g_dtor_calls == V_OLD(g_dtor_calls)))
;
