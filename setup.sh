#!/bin/bash
# Offline setup: nothing to build ahead of time (every check recompiles its proof units from /repo's working tree).
# Verifies the tools are present and that the hook guard is inert in the shipped build configuration.
set -e
cd "$(dirname "$(readlink -f "$0")")"
for t in goto-cc goto-instrument cbmc gcc python3; do command -v $t >/dev/null || { echo "missing tool $t"; exit 1; }; done
cbmc --version
mkdir -p evidence replay
./lib/check_hooks_inert.sh cc451d6 bf01b29 b6b3d93
echo "setup ok"
